/- Success-path characterisations of the device_code grant and of the use of a pushed request_uri. -/
import Fosite.Proofs.GrantHistory
namespace Fosite.Model

theorem exec_getDevice_dev (ss : SState) (k : Option Nat) (d : DevRec) (h : (ss.exec (.getDevice k)).2 = .dev d) :
    ∃ sig, k = some sig ∧ alookup ss.store.device sig = some d ∧ d.used = false := by
  simp only [SState.exec] at h
  cases k with
  | none => simp at h
  | some sig =>
    simp only [Option.bind_some] at h
    cases hl : alookup ss.store.device sig with
    | none => simp [hl] at h
    | some d' =>
      simp only [hl] at h
      by_cases hu : d'.used = true
      · simp [hu] at h
      · simp only [hu, Bool.false_eq_true, if_false] at h
        cases h
        exact ⟨sig, rfl, hl, by simpa using hu⟩

@[simp] theorem exec_getDevice_fst (ss : SState) (k) : (ss.exec (.getDevice k)).1 = ss := by
  simp only [SState.exec]; split <;> (try split) <;> rfl

/-- What a successful device-code exchange tells about the state before it. -/
structure DevicePollOk (cfg : Config) (now : Time) (q : DevicePollReq) (ss : SState) : Prop where
  ex : ∃ sig d client,
    q.code.sig = some sig ∧ alookup ss.store.device sig = some d ∧ d.used = false ∧
    d.state = 1 ∧ deviceExpired d cfg now = false ∧ q.code.exact = true ∧
    client ∈ ss.clients ∧ client.id = q.clientId ∧ (client.isPublic || q.credOk) = true ∧
    client.grants.contains deviceGrant = true ∧ d.req.client.id = client.id

theorem devicePoll_wp (rc : RunCfg) (hnf : NoFaults rc) (cfg : Config) (now : Time) (q : DevicePollReq) (rs : RState) :
    wpOk rc (devicePollH cfg now q)
      (fun _ o => ∀ a r i e sc, o = .tokens a r i e sc → DevicePollOk cfg now q rs.ss) rs := by
  unfold devicePollH
  simp only [wpOk_bind, wpOk_callH, wpOk_expectDev, authenticate, wpOk_expectClient, wpOk_guard, wpOk_pure]
  intro client hcl hcred hgr d hgd
  have nf : ∀ rs c e, (RState.step rc rs c).2 ≠ .fail e := fun rs c e => step_no_fail rc hnf rs c e
  have h1 := step_eq_exec rc rs .newId rfl _ rfl (nf _ _)
  have h2 := step_eq_exec rc (rs.step rc .newId).1 (.getClient q.clientId) rfl _ hcl (by intro e; simp)
  have h3 := step_eq_exec rc _ (.getDevice q.code.sig) rfl _ hgd (by intro e; simp)
  rw [exec_getClient_fst] at h2
  obtain ⟨hclm, hclid⟩ := exec_getClient_client _ _ _ h2.2
  rw [h1.1, (exec_newId_ss rs.ss).2] at hclm
  obtain ⟨sig, hsig, hdev, hunused⟩ := exec_getDevice_dev _ _ _ h3.2
  rw [h2.1, h1.1, (exec_newId_ss rs.ss).1] at hdev
  -- the user-code state gate
  unfold deviceStateGate
  by_cases hs0 : (d.state == 0) = true
  · simp only [hs0, if_true]; exact wpOk_fail rc _ _ _
  · by_cases hs2 : (d.state == 2) = true
    · simp only [hs0, hs2, Bool.false_eq_true, if_false, if_true]; exact wpOk_fail rc _ _ _
    · simp only [hs0, hs2, Bool.false_eq_true, if_false, wpOk_ok]
      intro hexp hexact hcid d2 hgd2 hst2
      -- everything after this point only matters through the final outcome
      have hfacts : DevicePollOk cfg now q rs.ss := by
        have h5 := step_eq_exec rc _ (.getDevice q.code.sig) rfl _ hgd2 (by intro e; simp)
        obtain ⟨sig2, hsig2, hdev2, _⟩ := exec_getDevice_dev _ _ _ h5.2
        rw [h3.1, exec_getDevice_fst, h2.1, h1.1, (exec_newId_ss rs.ss).1] at hdev2
        rw [hsig] at hsig2; cases hsig2
        rw [hdev] at hdev2; cases hdev2
        exact ⟨sig, d, client, hsig, hdev, hunused, by simpa using hst2, by simpa using hexp, hexact, hclm, hclid, hcred, hgr,
          by simpa using hcid⟩
      intro _
      apply wpOk_of_forall
      intro _ _
      repeat' (first | (apply wpOk_of_forall; intro _ _) | (intro _ _ _ _ _ _; exact hfacts))

theorem devicePoll_success (rc : RunCfg) (hnf : NoFaults rc) (cfg : Config) (now : Time) (q : DevicePollReq) (rs : RState)
    (a : Nat) (r : Option Nat) (i : Bool) (e : Int) (sc : List String)
    (h : (run rc rs (devicePollProg cfg now q)).2 = .tokens a r i e sc) : DevicePollOk cfg now q rs.ss :=
  run_HP_ok rc (devicePollH cfg now q) rs _ _ (devicePoll_wp rc hnf cfg now q rs) h (by intro e; simp) a r i e sc rfl

/-! ### use of a pushed request_uri -/

theorem exec_getPAR_par (ss : SState) (k : Option Nat) (p : ParRec) (h : (ss.exec (.getPAR k)).2 = .par p) :
    ∃ u, k = some u ∧ alookup ss.store.par u = some p := by
  simp only [SState.exec] at h
  cases k with
  | none => simp at h
  | some u =>
    simp only [Option.bind_some] at h
    cases hl : alookup ss.store.par u with
    | none => simp [hl] at h
    | some p' => simp only [hl] at h; cases h; exact ⟨u, rfl, hl⟩

@[simp] theorem exec_getPAR_fst (ss : SState) (k) : (ss.exec (.getPAR k)).1 = ss := by
  simp only [SState.exec]; split <;> rfl

/-- What a successful authorization from a pushed request tells about the state before it. -/
structure AuthorizeParOk (now : Time) (a : AuthzParReq) (ss : SState) : Prop where
  ex : ∃ u p, a.uri = some u ∧ alookup ss.store.par u = some p ∧ a.clientId = p.req.client.id ∧
    (∀ e, p.req.sess.expPar = some e → now ≤ e)

theorem authorizePar_wp (rc : RunCfg) (hnf : NoFaults rc) (cfg : Config) (now : Time) (minNonce : Nat) (a : AuthzParReq) (rs : RState) :
    wpOk rc (authorizeParH cfg now minNonce a)
      (fun _ o => ∀ c t i, o = .authz c t i → AuthorizeParOk now a rs.ss) rs := by
  unfold authorizeParH
  simp only [wpOk_bind, wpOk_expectPar, wpOk_expectOk, wpOk_guard]
  intro p hgp hexp _ hcid
  have h1 := step_eq_exec rc rs (.getPAR a.uri) rfl _ hgp (by intro e; simp)
  obtain ⟨u, hu, hl⟩ := exec_getPAR_par _ _ _ h1.2
  have hfacts : AuthorizeParOk now a rs.ss := ⟨u, p, hu, hl, by simpa using hcid, by
    intro e he; rw [he] at hexp; simpa using hexp⟩
  repeat' (first | (apply wpOk_of_forall; intro _ _) | (intro _ _ _ _; exact hfacts) | (intro _))

end Fosite.Model

namespace Fosite.Model

/-! ### device codes and request URIs die and stay dead -/

def DevBelow (ss : SState) : Prop := ∀ sig d, alookup ss.store.device sig = some d → sig < ss.next
def ParBelow (ss : SState) : Prop := ∀ u p, alookup ss.store.par u = some p → u < ss.next

/-- the device code is known and can never yield tokens (any more): deleted, or marked as used -/
def DevDead (ss : SState) (sig : Nat) : Prop :=
  sig < ss.next ∧ ∀ d, alookup ss.store.device sig = some d → d.used = true

/-- the request_uri was issued and is gone -/
def ParDead (ss : SState) (u : Nat) : Prop := u < ss.next ∧ alookup ss.store.par u = none

theorem exec_device_cases (ss : SState) (c : Call) :
    (ss.exec c).1.store.device = ss.store.device ∨
    (∃ r, c = .createDevice r ∧ (ss.exec c).1.store.device = aset ss.store.device ss.next { r with userSig := ss.next + 1 }) ∨
    (∃ sig, c = .invalidateDevice (some sig) ∧
      ((ss.exec c).1.store.device = adel ss.store.device sig ∨
       ∃ d, alookup ss.store.device sig = some d ∧ (ss.exec c).1.store.device = aset ss.store.device sig { d with used := true })) := by
  cases c <;> simp only [SState.exec, revokeAccessS, revokeRefreshS] <;> (try (left; (repeat' split) <;> first | rfl | trivial))
  · right; left; exact ⟨_, rfl, rfl⟩
  · rename_i k
    cases k with
    | none => left; rfl
    | some sig =>
      by_cases hm : ss.devMark = true
      · simp only [hm, if_true]
        cases hl : alookup ss.store.device sig with
        | none => left; rfl
        | some d => right; right; exact ⟨sig, rfl, Or.inr ⟨d, hl, rfl⟩⟩
      · simp only [hm, Bool.false_eq_true, if_false]
        right; right; exact ⟨sig, rfl, Or.inl rfl⟩

theorem exec_par_cases (ss : SState) (c : Call) :
    (ss.exec c).1.store.par = ss.store.par ∨
    (∃ r, c = .createPAR r ∧ (ss.exec c).1.store.par = aset ss.store.par ss.next r) ∨
    (∃ u, c = .deletePAR (some u) ∧ (ss.exec c).1.store.par = adel ss.store.par u) := by
  cases c <;> simp only [SState.exec, revokeAccessS, revokeRefreshS] <;> (try (left; (repeat' split) <;> first | rfl | trivial))
  · right; left; exact ⟨_, rfl, rfl⟩
  · rename_i k
    cases k with
    | none => left; rfl
    | some u => right; right; exact ⟨u, rfl, rfl⟩

theorem exec_DevBelow (ss : SState) (c : Call) (h : DevBelow ss) : DevBelow (ss.exec c).1 := by
  intro sig d hl
  have hm := exec_next_mono ss c
  rcases exec_device_cases ss c with he | ⟨r, hc, he⟩ | ⟨s2, hc, he | ⟨d2, hl2, he⟩⟩
  · rw [he] at hl; exact Nat.lt_of_lt_of_le (h _ _ hl) hm
  · rw [he, alookup_aset] at hl
    subst hc
    have : (ss.exec (.createDevice r)).1.next = ss.next + 2 := by simp [SState.exec]
    rw [this]
    by_cases hs : sig = ss.next
    · omega
    · simp only [hs, if_false] at hl; have := h _ _ hl; omega
  · rw [he, alookup_adel] at hl
    by_cases hs : sig = s2
    · simp [hs] at hl
    · simp only [hs, if_false] at hl; exact Nat.lt_of_lt_of_le (h _ _ hl) hm
  · rw [he, alookup_aset] at hl
    by_cases hs : sig = s2
    · subst hs; exact Nat.lt_of_lt_of_le (h _ _ hl2) hm
    · simp only [hs, if_false] at hl; exact Nat.lt_of_lt_of_le (h _ _ hl) hm

theorem exec_DevDead (ss : SState) (c : Call) (sig : Nat) (h : DevDead ss sig) : DevDead (ss.exec c).1 sig := by
  obtain ⟨hlt, hd⟩ := h
  refine ⟨Nat.lt_of_lt_of_le hlt (exec_next_mono ss c), ?_⟩
  intro d hl
  rcases exec_device_cases ss c with he | ⟨r, hc, he⟩ | ⟨s2, hc, he | ⟨d2, hl2, he⟩⟩
  · rw [he] at hl; exact hd d hl
  · rw [he, alookup_aset] at hl
    have : sig ≠ ss.next := Nat.ne_of_lt hlt
    simp only [this, if_false] at hl; exact hd d hl
  · rw [he, alookup_adel] at hl
    by_cases hs : sig = s2
    · simp [hs] at hl
    · simp only [hs, if_false] at hl; exact hd d hl
  · rw [he, alookup_aset] at hl
    by_cases hs : sig = s2
    · simp only [hs, if_true] at hl; cases hl; rfl
    · simp only [hs, if_false] at hl; exact hd d hl

theorem exec_invalidateDevice_dead (ss : SState) (sig : Nat) (hlt : sig < ss.next) :
    DevDead (ss.exec (.invalidateDevice (some sig))).1 sig := by
  refine ⟨Nat.lt_of_lt_of_le hlt (exec_next_mono ss _), ?_⟩
  intro d hl
  rcases exec_device_cases ss (.invalidateDevice (some sig)) with he | ⟨r, hc, _⟩ | ⟨s2, hc, he | ⟨d2, hl2, he⟩⟩
  · -- unchanged only when the record was absent in the marking store
    rw [he] at hl
    simp only [SState.exec] at he
    by_cases hm : ss.devMark = true
    · simp only [hm, if_true] at he
      rw [hl] at he
      have := congrArg (fun l => alookup l sig) he
      simp only [alookup_aset_self] at this
      rw [hl] at this
      have h2 := Option.some.inj this
      rw [← h2]
    · simp only [hm, Bool.false_eq_true, if_false] at he
      have := congrArg (fun l => alookup l sig) he
      simp only [alookup_adel, if_true] at this
      rw [hl] at this; cases this
  · cases hc
  · cases hc; rw [he, alookup_adel] at hl; simp at hl
  · cases hc; rw [he, alookup_aset_self] at hl; cases hl; rfl

theorem exec_ParBelow (ss : SState) (c : Call) (h : ParBelow ss) : ParBelow (ss.exec c).1 := by
  intro u p hl
  have hm := exec_next_mono ss c
  rcases exec_par_cases ss c with he | ⟨r, hc, he⟩ | ⟨u2, hc, he⟩
  · rw [he] at hl; exact Nat.lt_of_lt_of_le (h _ _ hl) hm
  · rw [he, alookup_aset] at hl
    subst hc
    have : (ss.exec (.createPAR r)).1.next = ss.next + 1 := by simp [SState.exec]
    rw [this]
    by_cases hs : u = ss.next
    · omega
    · simp only [hs, if_false] at hl; have := h _ _ hl; omega
  · rw [he, alookup_adel] at hl
    by_cases hs : u = u2
    · simp [hs] at hl
    · simp only [hs, if_false] at hl; exact Nat.lt_of_lt_of_le (h _ _ hl) hm

theorem exec_ParDead (ss : SState) (c : Call) (u : Nat) (h : ParDead ss u) : ParDead (ss.exec c).1 u := by
  obtain ⟨hlt, hn⟩ := h
  refine ⟨Nat.lt_of_lt_of_le hlt (exec_next_mono ss c), ?_⟩
  rcases exec_par_cases ss c with he | ⟨r, hc, he⟩ | ⟨u2, hc, he⟩
  · rw [he]; exact hn
  · rw [he, alookup_aset]; have : u ≠ ss.next := Nat.ne_of_lt hlt; simp [this, hn]
  · rw [he, alookup_adel]; by_cases hs : u = u2 <;> simp [hs, hn]

/-- a store property that every storage call preserves holds after any handler program, whatever its result -/
theorem wp_preserves {α} (rc : RunCfg) (hp : Plain rc) (P : SState → Prop) (hP : ∀ ss c, P ss → P (ss.exec c).1)
    (p : Prog α) (rs : RState) (h : P rs.ss) : wp rc p (fun rs' _ => P rs'.ss) rs :=
  (wp_run rc p _ rs).mpr (run_preserves rc hp P hP p rs h)

/-- once a stable store property holds, it can be assumed of the final state of whatever follows -/
theorem wpOk_of_stable {α} (rc : RunCfg) (hp : Plain rc) (P : SState → Prop) (hP : ∀ ss c, P ss → P (ss.exec c).1)
    (x : HP α) (Q : RState → α → Prop) (rs : RState) (h : P rs.ss) (hQ : ∀ rs' a, P rs'.ss → Q rs' a) : wpOk rc x Q rs := by
  unfold wpOk
  exact wp_mono rc x.toProg _ _ rs (fun rs' r h a _ => hQ rs' a h) (wp_preserves rc hp P hP x.toProg rs h)

theorem wpOk_preserves {α} (rc : RunCfg) (hp : Plain rc) (P : SState → Prop) (hP : ∀ ss c, P ss → P (ss.exec c).1)
    (x : HP α) (rs : RState) (h : P rs.ss) : wpOk rc x (fun rs' _ => P rs'.ss) rs := by
  unfold wpOk
  exact wp_mono rc x.toProg _ _ rs (fun rs' r h a _ => h) (wp_preserves rc hp P hP x.toProg rs h)

end Fosite.Model

namespace Fosite.Model

/-- a successful device-code exchange leaves the device code dead (plain sequential runs) -/
theorem devicePoll_kills (rc : RunCfg) (hp : Plain rc) (cfg : Config) (now : Time) (q : DevicePollReq) (rs : RState)
    (hb : DevBelow rs.ss) :
    wpOk rc (devicePollH cfg now q)
      (fun rs' o => ∀ a r i e sc, o = .tokens a r i e sc → ∃ sig, q.code.sig = some sig ∧ DevDead rs'.ss sig) rs := by
  have hnf := hp.1
  unfold devicePollH
  simp only [wpOk_bind, wpOk_callH, wpOk_expectDev, authenticate, wpOk_expectClient, wpOk_guard, wpOk_pure]
  intro client hcl hcred hgr d hgd
  have nf : ∀ rs c e, (RState.step rc rs c).2 ≠ .fail e := fun rs c e => step_no_fail rc hnf rs c e
  have h1 := step_eq_exec rc rs .newId rfl _ rfl (nf _ _)
  have h2 := step_eq_exec rc (rs.step rc .newId).1 (.getClient q.clientId) rfl _ hcl (by intro e; simp)
  have h3 := step_eq_exec rc _ (.getDevice q.code.sig) rfl _ hgd (by intro e; simp)
  rw [exec_getClient_fst] at h2
  obtain ⟨sig, hsig, hdev, _⟩ := exec_getDevice_dev _ _ _ h3.2
  rw [h2.1, h1.1, (exec_newId_ss rs.ss).1] at hdev
  have hlt : sig < rs.ss.next := hb sig d hdev
  unfold deviceStateGate
  by_cases hs0 : (d.state == 0) = true
  · simp only [hs0, if_true]; exact wpOk_fail rc _ _ _
  · by_cases hs2 : (d.state == 2) = true
    · simp only [hs0, hs2, Bool.false_eq_true, if_false, if_true]; exact wpOk_fail rc _ _ _
    · simp only [hs0, hs2, Bool.false_eq_true, if_false, wpOk_ok]
      intro _ _ _ d2 hgd2 _ _
      simp only [wpOk_expectOk]
      intro _ hinvd
      -- the state right after `invalidateDevice`
      have h5 := step_eq_exec rc _ (.getDevice q.code.sig) rfl _ hgd2 (by intro e; simp)
      rw [exec_getDevice_fst] at h5
      have h6 := step_begin_ss rc (RState.step rc (RState.step rc (RState.step rc (RState.step rc rs .newId).1
        (.getClient q.clientId)).1 (.getDevice q.code.sig)).1 (.getDevice q.code.sig)).1
      have h7 := step_eq_exec rc _ (.invalidateDevice q.code.sig) rfl _ rfl
        (by intro e he; rw [he] at hinvd; simp [Res.errKind] at hinvd)
      have hdead : DevDead (RState.step rc (RState.step rc (RState.step rc (RState.step rc (RState.step rc (RState.step rc rs .newId).1
          (.getClient q.clientId)).1 (.getDevice q.code.sig)).1 (.getDevice q.code.sig)).1 .beginTx).1
          (.invalidateDevice q.code.sig)).1.ss sig := by
        rw [h7.1, h6, h5.1, h3.1, exec_getDevice_fst, h2.1, h1.1, hsig]
        apply exec_invalidateDevice_dead
        rw [exec_newId_next]; omega
      -- whatever follows only calls the store, so deadness survives to the end
      generalize (RState.step rc (RState.step rc (RState.step rc (RState.step rc (RState.step rc (RState.step rc rs .newId).1
          (.getClient q.clientId)).1 (.getDevice q.code.sig)).1 (.getDevice q.code.sig)).1 .beginTx).1
          (.invalidateDevice q.code.sig)).1 = rsI at hdead ⊢
      repeat' (first
        | (apply wpOk_of_stable rc hp (fun ss => DevDead ss sig) (fun ss c h => exec_DevDead ss c sig h) _ _ _ (by assumption)
           intro _ _ _)
        | (intro a r i e sc _; exact ⟨sig, hsig, by assumption⟩))

end Fosite.Model

namespace Fosite.Model

theorem exec_deletePAR_dead (ss : SState) (u : Nat) (hlt : u < ss.next) : ParDead (ss.exec (.deletePAR (some u))).1 u := by
  refine ⟨Nat.lt_of_lt_of_le hlt (exec_next_mono ss _), ?_⟩
  simp only [SState.exec]
  rw [alookup_adel]; simp

/-- looking a request_uri up consumes it: once the lookup succeeded the record is gone for good -/
theorem authorizePar_kills (rc : RunCfg) (hp : Plain rc) (cfg : Config) (now : Time) (minNonce : Nat) (a : AuthzParReq) (rs : RState)
    (hb : ParBelow rs.ss) :
    wpOk rc (authorizeParH cfg now minNonce a)
      (fun rs' o => ∀ c t i, o = .authz c t i → ∃ u, a.uri = some u ∧ ParDead rs'.ss u) rs := by
  have hnf := hp.1
  unfold authorizeParH
  simp only [wpOk_bind, wpOk_expectPar, wpOk_expectOk, wpOk_guard]
  intro p hgp _ hdel
  have h1 := step_eq_exec rc rs (.getPAR a.uri) rfl _ hgp (by intro e; simp)
  rw [exec_getPAR_fst] at h1
  obtain ⟨u, hu, hl⟩ := exec_getPAR_par _ _ _ h1.2
  have h2 := step_eq_exec rc _ (.deletePAR a.uri) rfl _ rfl
    (by intro e he; rw [he] at hdel; simp [Res.errKind] at hdel)
  have hdead : ParDead (RState.step rc (RState.step rc rs (.getPAR a.uri)).1 (.deletePAR a.uri)).1.ss u := by
    rw [h2.1, h1.1, hu]; exact exec_deletePAR_dead _ _ (hb u p hl)
  generalize (RState.step rc (RState.step rc rs (.getPAR a.uri)).1 (.deletePAR a.uri)).1 = rsI at hdead ⊢
  repeat' (first
    | (apply wpOk_of_stable rc hp (fun ss => ParDead ss u) (fun ss c h => exec_ParDead ss c u h) _ _ _ (by assumption)
       intro _ _ _)
    | (intro c t i _; exact ⟨u, hu, by assumption⟩)
    | (intro _))

end Fosite.Model

/-
  Weakest preconditions for `Prog` / `HP` under the interpreter `run`, and the success-path
  calculus `wpOk`: along the success path a handler is a linear sequence of steps.
-/
import Fosite.Model.HP
namespace Fosite.Model

def wp {α} (cfg : RunCfg) : Prog α → (RState → α → Prop) → RState → Prop
  | .ret a, Q, rs => Q rs a
  | .call c k, Q, rs => wp cfg (k (rs.step cfg c).2) Q (rs.step cfg c).1

theorem wp_run {α} (cfg : RunCfg) (p : Prog α) (Q : RState → α → Prop) (rs : RState) :
    wp cfg p Q rs ↔ Q (run cfg rs p).1 (run cfg rs p).2 := by
  induction p generalizing rs with
  | ret a => exact Iff.rfl
  | call c k ih => simp [wp, ih]

@[simp] theorem wp_ret {α} (cfg) (a : α) (Q) (rs) : wp cfg (.ret a) Q rs = Q rs a := rfl
@[simp] theorem wp_call {α} (cfg) (c) (k : Res → Prog α) (Q) (rs) :
    wp cfg (.call c k) Q rs = wp cfg (k (rs.step cfg c).2) Q (rs.step cfg c).1 := rfl

theorem wp_bind {α β} (cfg) (p : Prog α) (f : α → Prog β) (Q) (rs) :
    wp cfg (p.bind f) Q rs = wp cfg p (fun rs' a => wp cfg (f a) Q rs') rs := by
  induction p generalizing rs with
  | ret a => rfl
  | call c k ih => simp [Prog.bind, ih]

theorem wp_mono {α} (cfg) (p : Prog α) (Q Q' : RState → α → Prop) (rs)
    (h : ∀ rs' a, Q rs' a → Q' rs' a) : wp cfg p Q rs → wp cfg p Q' rs := by
  induction p generalizing rs with
  | ret a => exact h rs a
  | call c k ih => exact ih _ _

theorem wp_true {α} (cfg) (p : Prog α) (rs) : wp cfg p (fun _ _ => True) rs := by
  induction p generalizing rs with
  | ret a => trivial
  | call c k ih => exact ih _ _

/-- success-path precondition: whatever `Q` demands of a *successful* completion -/
def wpOk {α} (cfg : RunCfg) (x : HP α) (Q : RState → α → Prop) (rs : RState) : Prop :=
  wp cfg x.toProg (fun rs' r => ∀ a, r = .ok a → Q rs' a) rs

theorem wpOk_ok {α} (cfg) (a : α) (Q) (rs) : wpOk cfg (HP.ok a) Q rs ↔ Q rs a := by
  simp [wpOk, HP.ok, HP.mk, HP.toProg]

theorem wpOk_pure {α} (cfg) (a : α) (Q) (rs) : wpOk cfg (pure a : HP α) Q rs ↔ Q rs a := wpOk_ok cfg a Q rs

theorem wpOk_fail {α} (cfg) (e : Err) (Q : RState → α → Prop) (rs) : wpOk cfg (HP.fail e) Q rs := by
  simp [wpOk, HP.fail, HP.mk, HP.toProg]

theorem wpOk_failWith {α} (cfg) (p : Prog Err) (Q : RState → α → Prop) (rs) : wpOk cfg (HP.failWith p) Q rs := by
  unfold wpOk HP.failWith HP.mk HP.toProg
  rw [wp_bind]
  apply wp_mono cfg p (fun _ _ => True)
  · intro rs' e _; simp
  · exact wp_true cfg p rs

theorem wpOk_bind {α β} (cfg) (x : HP α) (f : α → HP β) (Q) (rs) :
    wpOk cfg (x >>= f) Q rs ↔ wpOk cfg x (fun rs' a => wpOk cfg (f a) Q rs') rs := by
  show wpOk cfg (HP.bind x f) Q rs ↔ _
  unfold wpOk HP.bind HP.mk
  show wp cfg (Prog.bind x.toProg _) _ rs ↔ _
  rw [wp_bind]
  constructor
  · apply wp_mono
    intro rs' r h a hr
    subst hr
    exact h
  · apply wp_mono
    intro rs' r h
    cases r with
    | ok a => exact h a rfl
    | error e => simp

theorem wpOk_guard (cfg) (c : Bool) (e : Err) (Q) (rs) :
    wpOk cfg (HP.guard c e) Q rs ↔ (c = true → Q rs ()) := by
  unfold HP.guard
  cases c
  · simp [wpOk_fail]
  · simp [wpOk_ok]

theorem wpOk_lift {α} (cfg) (p : Prog α) (Q) (rs) : wpOk cfg (HP.lift p) Q rs ↔ wp cfg p Q rs := by
  unfold wpOk HP.lift HP.mk HP.toProg
  rw [wp_bind]
  constructor
  · apply wp_mono; intro rs' a h; exact h a rfl
  · apply wp_mono; intro rs' a h b hb; cases hb; exact h

theorem wpOk_callH (cfg) (c : Call) (Q) (rs : RState) :
    wpOk cfg (callH c) Q rs ↔ Q (rs.step cfg c).1 (rs.step cfg c).2 := by
  unfold callH
  rw [wpOk_lift]
  rfl

theorem wpOk_expectReq (cfg) (c : Call) (other) (Q) (rs : RState) :
    wpOk cfg (expectReq c other) Q rs ↔ ∀ x, (rs.step cfg c).2 = .req x → Q (rs.step cfg c).1 x := by
  unfold expectReq wpOk HP.mk
  show wp cfg (Prog.call c _) _ rs ↔ _
  simp only [wp_call]
  generalize (rs.step cfg c).2 = r
  cases r <;> simp [HP.ok, HP.mk, HP.toProg]
  all_goals exact wpOk_failWith cfg _ Q _

theorem wpOk_expectNat (cfg) (c : Call) (other) (Q) (rs : RState) :
    wpOk cfg (expectNat c other) Q rs ↔ ∀ n, (rs.step cfg c).2 = .nat n → Q (rs.step cfg c).1 n := by
  unfold expectNat wpOk HP.mk
  show wp cfg (Prog.call c _) _ rs ↔ _
  simp only [wp_call]
  generalize (rs.step cfg c).2 = r
  cases r <;> simp [HP.ok, HP.mk, HP.toProg]
  all_goals exact wpOk_failWith cfg _ Q _

theorem wpOk_expectOk (cfg) (c : Call) (other) (Q) (rs : RState) :
    wpOk cfg (expectOk c other) Q rs ↔ ((rs.step cfg c).2.errKind = none → Q (rs.step cfg c).1 ()) := by
  unfold expectOk wpOk HP.mk
  show wp cfg (Prog.call c _) _ rs ↔ _
  simp only [wp_call]
  generalize (rs.step cfg c).2.errKind = r
  cases r
  · simp only [HP.ok, HP.mk, HP.toProg, wp_ret, forall_const, true_implies]
    constructor
    · intro h; exact h ()
    · intro h a; exact h
  · simp only [reduceCtorEq, false_implies, iff_true]
    exact wpOk_failWith cfg _ Q _

theorem wpOk_expectClient (cfg) (c : Call) (e) (Q) (rs : RState) :
    wpOk cfg (expectClient c e) Q rs ↔ ∀ x, (rs.step cfg c).2 = .client x → Q (rs.step cfg c).1 x := by
  unfold expectClient wpOk HP.mk
  show wp cfg (Prog.call c _) _ rs ↔ _
  simp only [wp_call]
  generalize (rs.step cfg c).2 = r
  cases r <;> simp [HP.ok, HP.fail, HP.mk, HP.toProg]

theorem wpOk_expectDev (cfg) (c : Call) (other) (Q) (rs : RState) :
    wpOk cfg (expectDev c other) Q rs ↔ ∀ x, (rs.step cfg c).2 = .dev x → Q (rs.step cfg c).1 x := by
  unfold expectDev wpOk HP.mk
  show wp cfg (Prog.call c _) _ rs ↔ _
  simp only [wp_call]
  generalize (rs.step cfg c).2 = r
  cases r <;> simp [HP.ok, HP.mk, HP.toProg]
  all_goals exact wpOk_failWith cfg _ Q _

theorem wpOk_expectPar (cfg) (c : Call) (other) (Q) (rs : RState) :
    wpOk cfg (expectPar c other) Q rs ↔ ∀ x, (rs.step cfg c).2 = .par x → Q (rs.step cfg c).1 x := by
  unfold expectPar wpOk HP.mk
  show wp cfg (Prog.call c _) _ rs ↔ _
  simp only [wp_call]
  generalize (rs.step cfg c).2 = r
  cases r <;> simp [HP.ok, HP.mk, HP.toProg]
  all_goals exact wpOk_failWith cfg _ Q _

/-- a postcondition that holds of every state and value holds after any handler program -/
theorem wpOk_of_forall {α} (cfg) (x : HP α) (Q : RState → α → Prop) (rs) (h : ∀ rs' a, Q rs' a) : wpOk cfg x Q rs := by
  unfold wpOk
  exact wp_mono cfg x.toProg _ _ rs (fun rs' r _ a _ => h rs' a) (wp_true cfg x.toProg rs)

theorem wpOk_ite {α} (cfg) (c : Prop) [Decidable c] (x y : HP α) (Q) (rs) :
    wpOk cfg (if c then x else y) Q rs ↔ (c → wpOk cfg x Q rs) ∧ (¬c → wpOk cfg y Q rs) := by
  split <;> simp_all

/-- closing a handler: a non-error outcome comes from the success path -/
theorem run_HP_ok (cfg) (x : HP Out) (rs : RState) (o : Out) (Q : RState → Out → Prop)
    (hw : wpOk cfg x Q rs) (hr : (run cfg rs x.run).2 = o) (hne : ∀ e, o ≠ .err e) :
    Q (run cfg rs x.run).1 o := by
  have key : wp cfg x.run (fun rs' o' => o' = o → Q rs' o) rs := by
    unfold HP.run
    rw [wp_bind]
    apply wp_mono cfg x.toProg _ _ rs _ hw
    intro rs' r h
    cases r with
    | ok a => show a = o → Q rs' o; intro hh; subst hh; exact h a rfl
    | error e => show Out.err e = o → Q rs' o; intro ha; exact absurd ha.symm (hne e)
  exact (wp_run cfg x.run _ rs).mp key hr

end Fosite.Model

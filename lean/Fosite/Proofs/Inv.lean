/-
  Store-level invariants and their stability under every storage call, lifted to whole runs.
-/
import Fosite.Proofs.Redeem
namespace Fosite.Model

/-- plain sequential interpretation: no injected faults, store without transactions -/
def Plain (rc : RunCfg) : Prop := NoFaults rc ∧ rc.tx = false

theorem plain_default : Plain {} := ⟨fun _ => rfl, rfl⟩

theorem step_ss_cases (rc : RunCfg) (hp : Plain rc) (rs : RState) (c : Call) :
    (rs.step rc c).1.ss = rs.ss ∨ (rs.step rc c).1.ss = (rs.ss.exec c).1 := by
  unfold RState.step
  by_cases hs : c.isSilent = true
  · simp [hs]
  · simp only [hs, Bool.false_eq_true, if_false, hp.2, Bool.not_false, Bool.and_true]
    by_cases ht : c.isTx = true
    · simp [ht]
    · simp only [ht, Bool.false_eq_true, if_false, hp.1 rs.idx]
      cases c <;> simp_all [Call.isTx]

/-- a property of the store that every storage call preserves holds after any program -/
theorem run_preserves {α} (rc : RunCfg) (hp : Plain rc) (P : SState → Prop)
    (hP : ∀ ss c, P ss → P (ss.exec c).1) (p : Prog α) (rs : RState) (h : P rs.ss) :
    P (run rc rs p).1.ss := by
  induction p generalizing rs with
  | ret a => exact h
  | call c k ih =>
    simp only [run_call]
    apply ih
    rcases step_ss_cases rc hp rs c with h' | h'
    · rw [h']; exact h
    · rw [h']; exact hP _ _ h

/-- every stored code signature was minted before -/
def CodesBelow (ss : SState) : Prop := ∀ sig rec, alookup ss.store.codes sig = some rec → sig < ss.next

/-- the code is known and has been invalidated -/
def CodeDead (ss : SState) (sig : Nat) : Prop :=
  ∃ rec, alookup ss.store.codes sig = some rec ∧ rec.active = false

theorem alookup_aset {β} (l : List (Nat × β)) (k k2 : Nat) (v : β) :
    alookup (aset l k v) k2 = if k2 = k then some v else alookup l k2 := by
  by_cases h : k2 = k
  · subst h; simp [alookup_aset_self]
  · simp [h, alookup_aset_ne _ _ _ _ h]

theorem exec_codes_cases (ss : SState) (c : Call) :
    (ss.exec c).1.store.codes = ss.store.codes ∨
    (∃ r, c = .createCode r ∧ (ss.exec c).1.store.codes = aset ss.store.codes ss.next { active := true, req := r }) ∨
    (∃ sig rec, c = .invalidateCode (some sig) ∧ alookup ss.store.codes sig = some rec ∧
        (ss.exec c).1.store.codes = aset ss.store.codes sig { rec with active := false }) := by
  cases c <;> simp only [SState.exec, revokeAccessS, revokeRefreshS] <;> (try (left; (repeat' split) <;> first | rfl | trivial))
  · right; left; exact ⟨_, rfl, rfl⟩
  · rename_i k
    cases k with
    | none => left; rfl
    | some sig =>
      cases hl : alookup ss.store.codes sig with
      | none => left; simp [hl]
      | some rec => right; right; exact ⟨sig, rec, rfl, hl, by simp [hl]⟩

theorem exec_next_mono (ss : SState) (c : Call) : ss.next ≤ (ss.exec c).1.next := by
  cases c <;> simp only [SState.exec, revokeAccessS, revokeRefreshS] <;> (repeat' split) <;> simp_all

theorem exec_next_createCode (ss : SState) (r : Req) : (ss.exec (.createCode r)).1.next = ss.next + 1 := by
  simp [SState.exec]

theorem exec_CodesBelow (ss : SState) (c : Call) (h : CodesBelow ss) : CodesBelow (ss.exec c).1 := by
  intro sig rec hl
  have hm := exec_next_mono ss c
  rcases exec_codes_cases ss c with he | ⟨r, hc, he⟩ | ⟨s2, rec2, hc, hl2, he⟩
  · rw [he] at hl; exact Nat.lt_of_lt_of_le (h _ _ hl) hm
  · rw [he, alookup_aset] at hl
    subst hc
    rw [exec_next_createCode]
    by_cases hs : sig = ss.next
    · omega
    · simp only [hs, if_false] at hl; have := h _ _ hl; omega
  · rw [he, alookup_aset] at hl
    by_cases hs : sig = s2
    · subst hs; exact Nat.lt_of_lt_of_le (h _ _ hl2) hm
    · simp only [hs, if_false] at hl; exact Nat.lt_of_lt_of_le (h _ _ hl) hm

theorem exec_CodeDead (ss : SState) (c : Call) (sig : Nat) (hb : CodesBelow ss) (h : CodeDead ss sig) :
    CodeDead (ss.exec c).1 sig := by
  obtain ⟨rec, hl, ha⟩ := h
  rcases exec_codes_cases ss c with he | ⟨r, hc, he⟩ | ⟨s2, rec2, hc, hl2, he⟩
  · exact ⟨rec, by rw [he]; exact hl, ha⟩
  · have : sig ≠ ss.next := Nat.ne_of_lt (hb _ _ hl)
    exact ⟨rec, by rw [he, alookup_aset]; simp [this, hl], ha⟩
  · by_cases hs : sig = s2
    · subst hs; exact ⟨{ rec2 with active := false }, by rw [he, alookup_aset]; simp, rfl⟩
    · exact ⟨rec, by rw [he, alookup_aset]; simp [hs, hl], ha⟩

/-- `CodesBelow` and deadness of a code, together, are stable under every storage call -/
theorem run_CodeDead {α} (rc : RunCfg) (hp : Plain rc) (p : Prog α) (rs : RState) (sig : Nat)
    (hb : CodesBelow rs.ss) (hd : CodeDead rs.ss sig) :
    CodesBelow (run rc rs p).1.ss ∧ CodeDead (run rc rs p).1.ss sig :=
  run_preserves rc hp (fun ss => CodesBelow ss ∧ CodeDead ss sig)
    (fun ss c h => ⟨exec_CodesBelow ss c h.1, exec_CodeDead ss c sig h.1 h.2⟩) p rs ⟨hb, hd⟩

theorem run_CodesBelow {α} (rc : RunCfg) (hp : Plain rc) (p : Prog α) (rs : RState)
    (hb : CodesBelow rs.ss) : CodesBelow (run rc rs p).1.ss :=
  run_preserves rc hp CodesBelow exec_CodesBelow p rs hb

end Fosite.Model

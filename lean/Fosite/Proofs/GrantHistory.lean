/- The grant invariant holds in every reachable state; refresh-token deadness is stable. -/
import Fosite.Proofs.SafeHandlers
import Fosite.Proofs.History
namespace Fosite.Model

theorem init_GInv : GInv ({} : MState).ss := by
  constructor <;> intros <;> simp_all [alookup]

theorem GInv_clients (ss : SState) (cl : List Client) (h : GInv ss) : GInv { ss with clients := cl } :=
  ⟨h.codesBelow, h.refreshBelow, h.idx, h.codeRT, h.codeIds⟩

/-- every endpoint program is safe -/
theorem prog_safe (s : MState) (op : Op) (p : Prog Out) (hp : op.prog s = some p) (hinv : GInv s.ss) :
    safeK {} p (fun _ _ => True) { ss := s.ss } := by
  cases op with
  | authorize q => cases hp; exact safeH_run _ _ _ (authorize_safe {} plain_default _ _ _ _ _ hinv)
  | redeem q => cases hp; exact safeH_run _ _ _ (redeem_safe {} plain_default _ _ _ _ hinv)
  | refresh q => cases hp; exact safeH_run _ _ _ (refresh_safe {} plain_default _ _ _ _ hinv)
  | revoke q => cases hp; exact safeK_of_calm _ _ _ (calm_revokeProg q)
  | introspect q => cases hp; exact safeK_of_calm _ _ _ (calm_introspectProg _ _ q)
  | setCfg _ => cases hp
  | setClient _ => cases hp
  | advance _ => cases hp

/-- **The grant invariant is preserved by every operation.** -/
theorem step_GInv (s : MState) (op : Op) (h : GInv s.ss) : GInv (step s op).1.ss := by
  cases hp : op.prog s with
  | some p =>
    rw [(step_prog s op p hp).1]
    exact (safeK_sound {} plain_default p _ _ h (prog_safe s op p hp h)).1
  | none =>
    cases op <;> simp_all [step, Op.prog] <;> exact GInv_clients _ _ h

theorem after_GInv (ops : List Op) (s : MState) (h : GInv s.ss) : GInv (after s ops).ss := by
  induction ops generalizing s with
  | nil => exact h
  | cons op ops ih => exact ih _ (step_GInv s op h)

/-- the refresh token is known to the server and can never be exchanged (any more) -/
def RTDead (ss : SState) (sig : Nat) : Prop :=
  sig < ss.next ∧ ∀ rec, alookup ss.store.refresh sig = some rec → rec.active = false

theorem exec_RTDead (ss : SState) (c : Call) (sig : Nat) (h : RTDead ss sig) : RTDead (ss.exec c).1 sig := by
  obtain ⟨hlt, hd⟩ := h
  refine ⟨Nat.lt_of_lt_of_le hlt (exec_next_mono ss c), ?_⟩
  intro rec hl
  by_cases hc : ∃ a r, c = .createRefresh a r
  · obtain ⟨a, r, hc⟩ := hc
    subst hc
    rw [(exec_createRefresh_effect ss a r).2.1, alookup_aset] at hl
    have : sig ≠ ss.next := Nat.ne_of_lt hlt
    simp only [this, if_false] at hl
    exact hd rec hl
  · have hw := (exec_refresh_weaker ss c (by intro a r h; exact hc ⟨a, r, h⟩)).1
    obtain ⟨rec0, hl0, _, hact⟩ := hw sig rec hl
    cases ha : rec.active with
    | false => rfl
    | true => have := hd rec0 hl0; rw [hact ha] at this; cases this

theorem step_RTDead (s : MState) (op : Op) (sig : Nat) (h : RTDead s.ss sig) : RTDead (step s op).1.ss sig :=
  step_preserves (fun ss => RTDead ss sig) (fun ss c h => exec_RTDead ss c sig h) (fun _ _ h => h) s op h

end Fosite.Model

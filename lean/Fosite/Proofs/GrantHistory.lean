/- The grant invariant holds in every reachable state (every operation, including the device and
   pushed-authorization flows, preserves it); refresh-token deadness is stable. -/
import Fosite.Proofs.SafeDevicePar
import Fosite.Proofs.History
namespace Fosite.Model

theorem init_GInv : GInv ({} : MState).ss := by
  constructor <;> intros <;> simp_all [alookup]

theorem GInv_clients (ss : SState) (cl : List Client) (h : GInv ss) : GInv { ss with clients := cl } :=
  ⟨h.codesBelow, h.refreshBelow, h.idx, h.codeRT, h.codeIds, h.devBelow, h.parBelow, h.devFresh, h.parFresh,
    h.devIds, h.parIds, h.devPar⟩

/-- editing the stored request of a device authorization (same request id, same `used` flag) and
    the OIDC session table keeps the invariant — this is all the consent application does -/
theorem GInv_device_oidc (ss : SState) (sig : Nat) (d dn : DevRec) (oidc : List (Nat × Req)) (h : GInv ss)
    (hl : alookup ss.store.device sig = some d) (hid : d.req.id = dn.req.id) (hu : dn.used = d.used) :
    GInv { ss with store := { ss.store with device := aset ss.store.device sig dn, oidc := oidc } } :=
  GInv.weaken ss _ h (CodesWeaker.refl _) (RefreshWeaker.refl _)
    (DevWeaker.set _ _ d dn hl hid (fun hn => by rw [← hu]; exact hn)) (ParWeaker.refl _) rfl (Nat.le_refl _)

theorem calm_clientCredentialsProg (cfg now q) : calm (clientCredentialsProg cfg now q) := by
  apply calm_run
  unfold clientCredentialsH
  apply calmH_bind _ _ (calmH_expectNat _ _ (by guardless) (fun _ => calm_retErr _)); intro _
  apply calmH_bind _ _ (calmH_authenticate _ _); intro client
  apply calmH_bind _ _ (calmH_guard _ _); intro _
  apply calmH_bind _ _ (calmH_optErr _); intro _
  apply calmH_bind _ _ (calmH_guard _ _); intro _
  apply calmH_bind _ _ (calmH_guard _ _); intro _
  apply calmH_bind _ _ (calmH_expectNat _ _ (by guardless) (fun _ => calm_retErr _)); intro _
  exact calmH_pure _

/-- the password grant creates its refresh token under a request id allocated in the same request -/
theorem password_safe (rc : RunCfg) (hp : Plain rc) (cfg : Config) (now : Time) (q : DirectReq) (rs : RState)
    (hinv : GInv rs.ss) : safeH rc (passwordH cfg now q) (fun _ _ => True) rs := by
  have hnf := hp.1
  unfold passwordH
  simp only [safeH_bind, safeH_callH, safeH_guard, safeH_pure, authenticate, safeH_expectClient, safeH_optErr,
    safeH_expectNat _ _ _ _ _ (fun _ => calm_retErr _)]
  refine ⟨guard_trivial _ _ (by guardless), ?_⟩
  intro rid hrid
  refine ⟨guard_trivial _ _ (by guardless), ?_⟩
  intro client hcl _ _ _ _ _
  refine ⟨guard_trivial _ _ (by guardless), ?_⟩
  have h1 := step_eq_exec rc rs .newId rfl _ hrid (by intro e; simp)
  have h2 := step_eq_exec rc (rs.step rc .newId).1 (.getClient q.clientId) rfl _ hcl (by intro e; simp)
  rw [exec_getClient_fst] at h2
  have hridn : rid = rs.ss.next := exec_newId_nat _ _ h1.2
  subst hridn
  generalize hres : (RState.step rc (RState.step rc (RState.step rc rs .newId).1 (.getClient q.clientId)).1
    (.authenticateUser q.username q.userOk)).2 = ures
  have h3 := step_eq_exec rc _ (.authenticateUser q.username q.userOk) rfl _ hres
  cases ures with
  | ok =>
    have h3' := h3 (by intro e; simp)
    have hss3 : (RState.step rc (RState.step rc (RState.step rc rs .newId).1 (.getClient q.clientId)).1
        (.authenticateUser q.username q.userOk)).1.ss = (rs.ss.exec .newId).1 := by
      rw [h3'.1, h2.1, h1.1]; simp only [SState.exec]; split <;> rfl
    simp only [safeH_bind, safeH_expectNat _ _ _ _ _ (fun _ => calm_retErr _), safeH_ite, safeH_pure]
    refine ⟨guard_trivial _ _ (by guardless), ?_⟩
    intro atk hat
    have h4 := step_eq_exec rc _ (.createAccess _) rfl _ hat (by intro e; simp)
    refine ⟨?_, fun _ => trivial⟩
    intro _
    refine ⟨?_, fun _ _ => trivial⟩
    intro _
    -- the guard of createRefresh: the request id is the one just allocated
    rw [h4.1, hss3]
    refine ⟨?_, ?_, ?_, ?_, ?_⟩
    · show rs.ss.next < _
      rw [(exec_createAccess_frame _ _).2.2.2, exec_newId_next]; omega
    · intro s r hl _
      show r.req.id ≠ rs.ss.next
      rw [(exec_createAccess_frame _ _).1, (exec_newId_ss rs.ss).1] at hl
      have := (hinv.refreshBelow s r hl).2; omega
    · intro s c hl _
      show c.req.id ≠ rs.ss.next
      rw [(exec_createAccess_frame _ _).2.1, (exec_newId_ss rs.ss).1] at hl
      have := (hinv.codesBelow s c hl).2; omega
    · intro s d hl _
      show d.req.id ≠ rs.ss.next
      rw [(exec_createAccess_frame2 _ _).1, (exec_newId_ss rs.ss).1] at hl
      have := (hinv.devBelow s d hl).2; omega
    · intro u p hl
      show p.req.id ≠ rs.ss.next
      rw [(exec_createAccess_frame2 _ _).2, (exec_newId_ss rs.ss).1] at hl
      have := (hinv.parBelow u p hl).2; omega
  | notFound => simp only [Res.errKind]; exact safeH_fail rc _ _ _
  | req _ => simp only [Res.errKind]; exact safeH_fail rc _ _ _
  | inactive _ => simp only [Res.errKind]; exact safeH_fail rc _ _ _
  | client _ => simp only [Res.errKind]; exact safeH_fail rc _ _ _
  | nat _ => simp only [Res.errKind]; exact safeH_fail rc _ _ _
  | par _ => simp only [Res.errKind]; exact safeH_fail rc _ _ _
  | dev _ => simp only [Res.errKind]; exact safeH_fail rc _ _ _
  | usedDev _ => simp only [Res.errKind]; exact safeH_fail rc _ _ _
  | fail e => exact absurd hres (step_no_fail rc hnf _ _ e)

/-- every endpoint program is safe -/
theorem prog_safe (s : MState) (op : Op) (p : Prog Out) (hp : op.prog s = some p) (hinv : GInv s.ss) :
    safeK {} p (fun _ _ => True) { ss := s.ss } := by
  cases op with
  | authorize q => cases hp; exact safeH_run _ _ _ (authorize_safe {} plain_default _ _ _ _ _ hinv)
  | redeem q => cases hp; exact safeH_run _ _ _ (redeem_safe {} plain_default _ _ _ _ hinv)
  | refresh q => cases hp; exact safeH_run _ _ _ (refresh_safe {} plain_default _ _ _ _ hinv)
  | revoke q => cases hp; exact safeK_of_calm _ _ _ (calm_revokeProg q)
  | introspect q => cases hp; exact safeK_of_calm _ _ _ (calm_introspectProg _ _ q)
  | introspectEndpoint q => cases hp; exact safeK_of_calm _ _ _ (calm_introspectEndpointProg _ _ q)
  | clientCredentials q => cases hp; exact safeK_of_calm _ _ _ (calm_clientCredentialsProg _ _ q)
  | password q => cases hp; exact safeH_run _ _ _ (password_safe {} plain_default _ _ _ _ hinv)
  | deviceAuthorize q => cases hp; exact safeH_run _ _ _ (deviceAuth_safe {} plain_default _ _ _ _ hinv)
  | parPush q => cases hp; exact safeH_run _ _ _ (parPush_safe {} plain_default _ _ _ _ hinv)
  | devicePoll q => cases hp; exact safeH_run _ _ _ (devicePoll_safe {} plain_default _ _ _ _ hinv)
  | authorizePar q => cases hp; exact safeH_run _ _ _ (authorizePar_safe {} plain_default _ _ _ _ _ hinv)
  | setCfg _ => cases hp
  | setClient _ => cases hp
  | advance _ => cases hp
  | deviceDecide _ _ _ _ _ => cases hp

/-- **The grant invariant is preserved by every operation.** -/
theorem step_GInv (s : MState) (op : Op) (h : GInv s.ss) : GInv (step s op).1.ss := by
  cases hp : op.prog s with
  | some p =>
    rw [(step_prog s op p hp).1]
    exact (safeK_sound {} plain_default p _ _ h (prog_safe s op p hp h)).1
  | none =>
    cases op with
    | setCfg c => exact h
    | setClient c => exact GInv_clients _ _ h
    | advance d => exact h
    | deviceDecide sig acc gs ga sub =>
      simp only [step]
      cases hl : alookup s.ss.store.device sig with
      | none => exact h
      | some d =>
        apply GInv_device_oidc _ sig d _ _ h hl
        · cases acc <;> rfl
        · cases acc <;> rfl
    | _ => simp [Op.prog] at hp

theorem after_GInv (ops : List Op) (s : MState) (h : GInv s.ss) : GInv (after s ops).ss := by
  induction ops generalizing s with
  | nil => exact h
  | cons op ops ih => exact ih _ (step_GInv s op h)

/-- the refresh token is known to the server and can never be exchanged (any more) -/
def RTDead (ss : SState) (sig : Nat) : Prop :=
  sig < ss.next ∧ ∀ rec, alookup ss.store.refresh sig = some rec → rec.active = false

theorem exec_RTDead (ss : SState) (c : Call) (sig : Nat) (h : RTDead ss sig) : RTDead (ss.exec c).1 sig := by
  obtain ⟨hlt, hd⟩ := h
  refine ⟨Nat.lt_of_lt_of_le hlt (exec_next_mono ss c), ?_⟩
  intro rec hl
  by_cases hc : ∃ a r, c = .createRefresh a r
  · obtain ⟨a, r, hc⟩ := hc
    subst hc
    rw [(exec_createRefresh_effect ss a r).2.1, alookup_aset] at hl
    have : sig ≠ ss.next := Nat.ne_of_lt hlt
    simp only [this, if_false] at hl
    exact hd rec hl
  · have hw := (exec_refresh_weaker ss c (by intro a r h; exact hc ⟨a, r, h⟩)).1
    obtain ⟨rec0, hl0, _, hact⟩ := hw sig rec hl
    cases ha : rec.active with
    | false => rfl
    | true => have := hd rec0 hl0; rw [hact ha] at this; cases this

theorem step_RTDead (s : MState) (op : Op) (sig : Nat) (h : RTDead s.ss sig) : RTDead (step s op).1.ss sig :=
  step_preserves (fun ss => RTDead ss sig) (fun ss c h => exec_RTDead ss c sig h) (fun _ _ h => h) (fun _ _ _ h => h) s op h

end Fosite.Model

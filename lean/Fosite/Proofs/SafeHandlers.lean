/-
  Every endpoint program is safe: it issues `createCode` / `createRefresh` (/ `createDevice` /
  `createPAR`: `Proofs/SafeDevicePar.lean`) only under their guards.  Hence (`safeK_sound`) every operation preserves the grant invariant.
-/
import Fosite.Proofs.Calm
import Fosite.Proofs.Refresh
namespace Fosite.Model

theorem safeK_of_calm_wp {α} (rc) (p : Prog α) (K : RState → α → Prop) (rs) (hc : calm p) (hw : wp rc p K rs) :
    safeK rc p K rs := by
  induction p generalizing rs with
  | ret a => exact hw
  | call c k ih => exact ⟨fun _ => guard_of_guardless _ _ hc.1, ih _ _ (hc.2 _) hw⟩

theorem safeH_of_calm_wpOk {α} (rc) (x : HP α) (K : RState → α → Prop) (rs) (hc : calmH x) (hw : wpOk rc x K rs) :
    safeH rc x K rs := by
  unfold safeH
  apply safeK_of_calm_wp rc x.toProg _ rs hc
  apply wp_mono rc x.toProg _ _ rs _ hw
  intro rs' r h
  cases r with
  | ok a => exact h a rfl
  | error e => trivial

theorem calmH_pkceHandle (cfg code v client) : calmH (pkceHandle cfg code v client) := by
  unfold pkceHandle
  apply calmH_bind _ _ (calmH_callH _ (by guardless)); intro r
  split
  · apply calmH_bind _ _ (calmH_optErr _); intro _
    exact calmH_optErr _
  · split
    · split
      · exact calmH_optErr _
      · exact calmH_fail _
    · exact calmH_fail _

theorem calmH_pkcePopulate (code) : calmH (pkcePopulate code) := by
  unfold pkcePopulate
  apply calmH_bind _ _ (calmH_callH _ (by guardless)); intro r
  split
  · exact calmH_pure _
  · exact calmH_pure _
  · exact calmH_fail _

theorem calmH_oidcExplicitPopulate (code client) : calmH (oidcExplicitPopulate code client) := by
  unfold oidcExplicitPopulate
  apply calmH_bind _ _ (calmH_callH _ (by guardless)); intro r
  split
  · apply calmH_bind _ _ (calmH_guard _ _); intro _
    apply calmH_bind _ _ (calmH_guard _ _); intro _
    apply calmH_bind _ _ (calmH_guard _ _); intro _
    apply calmH_bind _ _ (calmH_expectOk _ _ (by guardless) (fun _ => calm_retErr _)); intro _
    exact calmH_pure _
  · split
    · exact calmH_pure _
    · exact calmH_fail _

theorem safeH_calm_then {α} (rc) (x : HP α) (K : RState → α → Prop) (rs) (hc : calmH x) (hK : ∀ rs' a, K rs' a) :
    safeH rc x K rs := by
  apply safeH_of_calm_wpOk rc x K rs hc
  unfold wpOk
  exact wp_mono rc x.toProg _ _ rs (fun rs' r _ a _ => hK rs' a) (wp_true rc x.toProg rs)

theorem guard_trivial (ss : SState) (c : Call) (h : Guardless c) : GInv ss → Guard ss c :=
  fun _ => guard_of_guardless ss c h

theorem exec_createAccess_frame (ss : SState) (r : Req) :
    (ss.exec (.createAccess r)).1.store.refresh = ss.store.refresh ∧
    (ss.exec (.createAccess r)).1.store.codes = ss.store.codes ∧
    (ss.exec (.createAccess r)).1.store.rtIdx = ss.store.rtIdx ∧
    (ss.exec (.createAccess r)).1.next = ss.next + 1 := by
  simp [SState.exec]

theorem exec_createAccess_frame2 (ss : SState) (r : Req) :
    (ss.exec (.createAccess r)).1.store.device = ss.store.device ∧
    (ss.exec (.createAccess r)).1.store.par = ss.store.par := by
  simp [SState.exec]

theorem exec_newId_next (ss : SState) : (ss.exec .newId).1.next = ss.next + 1 := by simp [SState.exec]

/-- the code flow creates its refresh token only for a grant that has none yet -/
theorem redeem_safe (rc : RunCfg) (hp : Plain rc) (cfg : Config) (now : Time) (q : RedeemReq) (rs : RState)
    (hinv : GInv rs.ss) : safeH rc (redeemH cfg now q) (fun _ _ => True) rs := by
  have hnf := hp.1
  unfold redeemH
  simp only [safeH_bind, safeH_callH, safeH_guard, safeH_pure, authenticate, safeH_expectClient, safeH_ite, safeH_ok,
    safeH_expectReq _ _ _ _ _ calm_redeemLookupFailed,
    safeH_expectReq _ _ _ _ _ (fun _ => calm_retErr _),
    safeH_expectOk _ _ _ _ _ (fun _ => calm_retErr _),
    safeH_expectOk _ _ _ _ _ (fun _ => calm_rollbackThen _),
    safeH_expectNat _ _ _ _ _ (fun _ => calm_rollbackThen _)]
  refine ⟨guard_trivial _ _ (by guardless), guard_trivial _ _ (by guardless), ?_⟩
  intro client hcl hcred hgr
  refine ⟨guard_trivial _ _ (by guardless), ?_⟩
  intro ar hgc hexact hcid hredir
  have nf : ∀ rs c e, (RState.step rc rs c).2 ≠ .fail e := fun rs c e => step_no_fail rc hnf rs c e
  have h1 := step_eq_exec rc rs .newId rfl _ rfl (nf _ _)
  have h2 := step_eq_exec rc (rs.step rc .newId).1 (.getClient q.clientId) rfl _ hcl (by intro e; simp)
  have h3 := step_eq_exec rc _ (.getCode q.code.sig) rfl _ hgc (by intro e; simp)
  rw [exec_getClient_fst] at h2
  rw [exec_getCode_fst] at h3
  obtain ⟨sig, rec, hsig, hrec, hact, hreq⟩ := exec_getCode_req _ _ _ h3.2
  rw [h2.1, h1.1, (exec_newId_ss rs.ss).1] at hrec
  subst hreq
  have hss3 : (RState.step rc (RState.step rc (RState.step rc rs .newId).1 (.getClient q.clientId)).1 (.getCode q.code.sig)).1.ss
      = (rs.ss.exec .newId).1 := by rw [h3.1, h2.1, h1.1]
  apply safeH_of_calm_wpOk rc _ _ _ (calmH_pkceHandle _ _ _ _)
  apply wpOk_pkceHandle rc cfg q.code q.verifier client _ _ hnf
  intro rs4 hsame _
  refine ⟨guard_trivial _ _ (by guardless), ?_⟩
  intro ar2 hgc2 hexp
  refine ⟨guard_trivial _ _ (by guardless), ?_⟩
  intro hbegin
  refine ⟨guard_trivial _ _ (by guardless), ?_⟩
  intro hinvd
  refine ⟨guard_trivial _ _ (by guardless), ?_⟩
  intro atk hat
  -- states
  have h5 := step_eq_exec rc rs4 (.getCode q.code.sig) rfl _ hgc2 (by intro e; simp)
  rw [exec_getCode_fst] at h5
  have h6 := step_begin_ss rc (RState.step rc rs4 (.getCode q.code.sig)).1
  have h7 := step_eq_exec rc _ (.invalidateCode q.code.sig) rfl _ rfl
    (by intro e he; rw [he] at hinvd; simp [Res.errKind] at hinvd)
  obtain ⟨sig3, rec3, hsig3, hrec3, hinvst⟩ := exec_invalidateCode_ok _ _ (by rw [h7.2]; exact hinvd)
  rw [hsig] at hsig3; cases hsig3
  have hcodes4 : rs4.ss.store.codes = rs.ss.store.codes := by
    rw [hsame.2.2.1, hss3, (exec_newId_ss rs.ss).1]
  have hrefresh4 : rs4.ss.store.refresh = rs.ss.store.refresh := by
    rw [hsame.2.2.2.2.1, hss3, (exec_newId_ss rs.ss).1]
  have hnext4 : rs4.ss.next = rs.ss.next + 1 := by rw [hsame.1, hss3, exec_newId_next]
  rw [h6, h5.1, hcodes4, hrec] at hrec3; cases hrec3
  have h8 := step_eq_exec rc _ (.createAccess _) rfl _ hat (by intro e; simp)
  constructor
  · intro hcan
    refine ⟨?_, ?_⟩
    · -- the guard of createRefresh
      intro hcur
      have hst : (RState.step rc (RState.step rc (RState.step rc (RState.step rc rs4 (.getCode q.code.sig)).1 .beginTx).1
          (.invalidateCode q.code.sig)).1 (.createAccess ((redeemStoreReq cfg now q client rec.req ar2).sanitize []))).1.ss
          = ((({ rs4.ss with store := { rs4.ss.store with codes := aset rs4.ss.store.codes sig { rec with active := false } } } : SState).exec
              (.createAccess ((redeemStoreReq cfg now q client rec.req ar2).sanitize []))).1) := by
        rw [h8.1, h7.1, hinvst, h6, h5.1]
      rw [hst] at hcur ⊢
      obtain ⟨fr, fc, fi, fn⟩ := exec_createAccess_frame
        ({ rs4.ss with store := { rs4.ss.store with codes := aset rs4.ss.store.codes sig { rec with active := false } } } : SState)
        ((redeemStoreReq cfg now q client rec.req ar2).sanitize [])
      have hcl : alookup ((({ rs4.ss with store := { rs4.ss.store with codes := aset rs4.ss.store.codes sig { rec with active := false } } } : SState).exec
              (.createAccess ((redeemStoreReq cfg now q client rec.req ar2).sanitize []))).1).store.codes sig
          = some { rec with active := false } := by
        rw [fc]; exact alookup_aset_self _ _ _
      refine ⟨?_, ?_, ?_, ?_, ?_⟩
      · show rec.req.id < _
        rw [fn]; show rec.req.id < rs4.ss.next + 1
        have := (hinv.codesBelow sig rec hrec).2; omega
      · intro s r hl _
        rw [fr] at hl
        show r.req.id ≠ rec.req.id
        change alookup rs4.ss.store.refresh s = some r at hl
        rw [hrefresh4] at hl
        exact hinv.codeRT sig rec s r hrec hact hl
      · intro s c hl hca
        rw [fc] at hl
        show c.req.id ≠ rec.req.id
        change alookup (aset rs4.ss.store.codes sig { rec with active := false }) s = some c at hl
        rw [alookup_aset, hcodes4] at hl
        by_cases hs : s = sig
        · simp only [hs, if_true] at hl; cases hl; cases hca
        · simp only [hs, if_false] at hl
          intro heq
          exact hs (hinv.codeIds s sig c rec hl hrec heq)
      · -- no live device authorization / pushed request carries the id of a stored code
        intro s d hl hu heq
        exact (hcur.devFresh s d hl hu).2 sig _ hcl heq.symm
      · intro u p hl heq
        exact (hcur.parFresh u p hl).2 sig _ hcl heq.symm
    · intro n hrt
      refine ⟨guard_trivial _ _ (by guardless), ?_⟩
      intro _
      apply safeH_calm_then rc _ _ _ (calmH_oidcExplicitPopulate _ _); intro _ _
      apply safeH_calm_then rc _ _ _ (calmH_pkcePopulate _); intro _ _
      trivial
  · intro _
    refine ⟨guard_trivial _ _ (by guardless), ?_⟩
    intro _
    apply safeH_calm_then rc _ _ _ (calmH_oidcExplicitPopulate _ _); intro _ _
    apply safeH_calm_then rc _ _ _ (calmH_pkcePopulate _); intro _ _
    trivial

theorem exec_rotate_effect (ss : SState) (rid sig : Nat) (k : Option Nat) (rec : RefreshRec)
    (hi : alookup ss.store.rtIdx rid = some sig) (hl : alookup ss.store.refresh sig = some rec) :
    (ss.exec (.rotateRefresh rid k)).1.store.refresh = aset ss.store.refresh sig { rec with active := false } ∧
    (ss.exec (.rotateRefresh rid k)).1.store.rtIdx = ss.store.rtIdx ∧
    (ss.exec (.rotateRefresh rid k)).1.store.codes = ss.store.codes ∧
    (ss.exec (.rotateRefresh rid k)).1.next = ss.next := by
  have ha := revokeAccessS_effect
    ({ ss.store with refresh := aset ss.store.refresh sig { rec with active := false } } : Store) rid
  simp only [SState.exec, revokeRefreshS, hi, hl]
  exact ⟨ha.1, ha.2.1, ha.2.2.1, trivial⟩

/-- the refresh flow creates the new refresh token only after the presented one — the only active
    one of its grant — has been rotated away -/
theorem refresh_safe (rc : RunCfg) (hp : Plain rc) (cfg : Config) (now : Time) (q : RefreshReq) (rs : RState)
    (hinv : GInv rs.ss) : safeH rc (refreshH cfg now q) (fun _ _ => True) rs := by
  have hnf := hp.1
  unfold refreshH
  simp only [safeH_bind, safeH_callH, safeH_guard, safeH_pure, authenticate, safeH_expectClient, safeH_ite, safeH_ok,
    safeH_expectReq _ _ _ _ _ (calm_refreshLookupFailed _),
    safeH_expectOk _ _ _ _ _ (fun _ => calm_retErr _),
    safeH_expectOk _ _ _ _ _ calm_refreshStorageError,
    safeH_expectNat _ _ _ _ _ (fun _ => calm_refreshStorageError _)]
  refine ⟨guard_trivial _ _ (by guardless), guard_trivial _ _ (by guardless), ?_⟩
  intro client hcl hcred hgr
  refine ⟨guard_trivial _ _ (by guardless), ?_⟩
  intro orig hgr1 hexp hexact hrs hcid hsc
  apply safeH_of_calm_wpOk rc _ _ _ (calmH_optErr _)
  rw [optErr_ok]
  intro haud
  refine ⟨guard_trivial _ _ (by guardless), ?_⟩
  intro hbegin
  refine ⟨guard_trivial _ _ (by guardless), ?_⟩
  intro hrot
  refine ⟨guard_trivial _ _ (by guardless), ?_⟩
  intro atk hat
  have nf : ∀ rs c e, (RState.step rc rs c).2 ≠ .fail e := fun rs c e => step_no_fail rc hnf rs c e
  have h1 := step_eq_exec rc rs .newId rfl _ rfl (nf _ _)
  have h2 := step_eq_exec rc (rs.step rc .newId).1 (.getClient q.clientId) rfl _ hcl (by intro e; simp)
  have h3 := step_eq_exec rc _ (.getRefresh q.token.sig) rfl _ hgr1 (by intro e; simp)
  rw [exec_getClient_fst] at h2
  rw [exec_getRefresh_fst] at h3
  obtain ⟨sig, rec, hsig, hrec, hact, hreq⟩ := exec_getRefresh_req _ _ _ h3.2
  rw [h2.1, h1.1, (exec_newId_ss rs.ss).1] at hrec
  subst hreq
  have h4 := step_begin_ss rc (RState.step rc (RState.step rc (RState.step rc rs .newId).1 (.getClient q.clientId)).1 (.getRefresh q.token.sig)).1
  have hss4 : (RState.step rc (RState.step rc (RState.step rc (RState.step rc rs .newId).1 (.getClient q.clientId)).1 (.getRefresh q.token.sig)).1 .beginTx).1.ss
      = (rs.ss.exec .newId).1 := by rw [h4, h3.1, h2.1, h1.1]
  have h5 := step_eq_exec rc _ (.rotateRefresh (refreshStoreReq cfg now q client rec.req).id q.token.sig) rfl _ rfl
    (by intro e he; rw [he] at hrot; simp [Res.errKind] at hrot)
  have h6 := step_eq_exec rc _ (.createAccess _) rfl _ hat (by intro e; simp)
  rw [hss4] at h5
  rw [h5.1] at h6
  have hidx : alookup (rs.ss.exec .newId).1.store.rtIdx rec.req.id = some sig := by
    rw [(exec_newId_ss rs.ss).1]; exact hinv.idx sig rec hrec hact
  have hrec1 : alookup (rs.ss.exec .newId).1.store.refresh sig = some rec := by
    rw [(exec_newId_ss rs.ss).1]; exact hrec
  obtain ⟨er, ei, ec, en⟩ := exec_rotate_effect (rs.ss.exec .newId).1 rec.req.id sig q.token.sig rec hidx hrec1
  refine ⟨?_, ?_⟩
  · intro hcur
    rw [h6.1] at hcur ⊢
    obtain ⟨fr, fc, fi, fn⟩ := exec_createAccess_frame
      ((rs.ss.exec .newId).1.exec (.rotateRefresh (refreshStoreReq cfg now q client rec.req).id q.token.sig)).1
      ((refreshStoreReq cfg now q client rec.req).sanitize [])
    have hid : (refreshStoreReq cfg now q client rec.req).id = rec.req.id := rfl
    rw [hid] at fr fc fi fn hcur ⊢
    have hrl : alookup ((((rs.ss.exec .newId).1.exec (.rotateRefresh rec.req.id q.token.sig)).1.exec
        (.createAccess ((refreshStoreReq cfg now q client rec.req).sanitize []))).1).store.refresh sig
        = some { rec with active := false } := by
      rw [fr, er]; exact alookup_aset_self _ _ _
    refine ⟨?_, ?_, ?_, ?_, ?_⟩
    · show rec.req.id < _
      rw [fn, en, exec_newId_next]
      have := (hinv.refreshBelow sig rec hrec).2; omega
    · intro s r hl hra
      show r.req.id ≠ rec.req.id
      rw [fr, er, alookup_aset, (exec_newId_ss rs.ss).1] at hl
      by_cases hs : s = sig
      · simp only [hs, if_true] at hl; cases hl; cases hra
      · simp only [hs, if_false] at hl
        intro heq
        have := hinv.idx s r hl hra
        rw [heq, hinv.idx sig rec hrec hact] at this
        exact hs (Option.some.inj this).symm
    · intro s c hl hca
      show c.req.id ≠ rec.req.id
      rw [fc, ec, (exec_newId_ss rs.ss).1] at hl
      exact fun heq => hinv.codeRT s c sig rec hl hca hrec heq.symm
    · -- no live device authorization / pushed request carries the id of a stored refresh token
      intro s d hl hu heq
      exact (hcur.devFresh s d hl hu).1 sig _ hrl heq.symm
    · intro u p hl heq
      exact (hcur.parFresh u p hl).1 sig _ hrl heq.symm
  · intro rt hrt
    refine ⟨guard_trivial _ _ (by guardless), ?_⟩
    intro _ _
    trivial

/-! ### the authorization endpoint -/

theorem exactOne_length (xs : List String) (x : String) (h : exactOne xs x = true) : xs.length = 1 := by
  unfold exactOne at h; simp at h; exact h.1

theorem exactOne_not_hybrid (xs : List String) (x : String) (h : exactOne xs x = true) : isHybrid xs = false := by
  have := exactOne_length xs x h
  unfold isHybrid; simp [this]

theorem hybrid_not_exactOne (xs : List String) (x : String) (h : isHybrid xs = true) : exactOne xs x = false := by
  cases he : exactOne xs x with
  | false => rfl
  | true => rw [exactOne_not_hybrid xs x he] at h; cases h

theorem authzExplicit_skip (cfg now client q acc) (h : exactOne q.responseTypes "code" = false) :
    authzExplicit cfg now client q acc = pure acc := by
  unfold authzExplicit; simp [h]
theorem authzImplicit_skip (cfg now client q acc) (h : exactOne q.responseTypes "token" = false) :
    authzImplicit cfg now client q acc = pure acc := by
  unfold authzImplicit; simp [h]
theorem authzOIDCExplicit_skip (q acc) (h : exactOne q.responseTypes "code" = false) :
    authzOIDCExplicit q acc = pure acc := by
  unfold authzOIDCExplicit; simp [h]
theorem authzHybrid_skip (cfg now minNonce client q acc) (h : isHybrid q.responseTypes = false) :
    authzHybrid cfg now minNonce client q acc = pure acc := by
  unfold authzHybrid; simp [h]

theorem calmH_authzImplicit (cfg now client q acc) : calmH (authzImplicit cfg now client q acc) := by
  unfold authzImplicit
  split
  · exact calmH_pure _
  · apply calmH_bind _ _ (calmH_guard _ _); intro _
    apply calmH_bind _ _ (calmH_guard _ _); intro _
    apply calmH_bind _ _ (calmH_optErr _); intro _
    apply calmH_bind _ _ (calmH_expectNat _ _ (by guardless) (fun _ => calm_retErr _)); intro _
    exact calmH_pure _

theorem calmH_authzOIDCExplicit (q acc) : calmH (authzOIDCExplicit q acc) := by
  unfold authzOIDCExplicit
  split
  · exact calmH_pure _
  · split
    · exact calmH_fail _
    · apply calmH_bind _ _ (calmH_guard _ _); intro _
      apply calmH_bind _ _ (calmH_guard _ _); intro _
      apply calmH_bind _ _ (calmH_expectOk _ _ (by guardless) (fun _ => calm_retErr _)); intro _
      exact calmH_pure _

theorem calmH_authzPKCE (cfg client q acc) : calmH (authzPKCE cfg client q acc) := by
  unfold authzPKCE
  split
  · exact calmH_pure _
  · apply calmH_bind _ _ (calmH_optErr _); intro _
    split
    · exact calmH_pure _
    · split
      · exact calmH_fail _
      · apply calmH_bind _ _ (calmH_expectOk _ _ (by guardless) (fun _ => calm_retErr _)); intro _
        exact calmH_pure _

/-- a request id that no stored code, refresh record, live device authorization or pushed request carries -/
def IdFresh (ss : SState) (n : Nat) : Prop :=
  n < ss.next ∧ (∀ sig rec, alookup ss.store.refresh sig = some rec → rec.req.id ≠ n) ∧
    (∀ s c, alookup ss.store.codes s = some c → c.req.id ≠ n) ∧ NoPending ss n

theorem idFresh_after_newId (ss : SState) (h : GInv ss) : IdFresh (ss.exec .newId).1 ss.next := by
  refine ⟨by rw [exec_newId_next]; omega, ?_, ?_, ?_, ?_⟩
  · intro sig rec hl; rw [(exec_newId_ss ss).1] at hl; have := (h.refreshBelow sig rec hl).2; omega
  · intro s c hl; rw [(exec_newId_ss ss).1] at hl; have := (h.codesBelow s c hl).2; omega
  · intro s d hl _; rw [(exec_newId_ss ss).1] at hl; have := (h.devBelow s d hl).2; omega
  · intro u p hl; rw [(exec_newId_ss ss).1] at hl; have := (h.parBelow u p hl).2; omega

theorem exec_newId_nat (ss : SState) (n : Nat) (h : (ss.exec .newId).2 = .nat n) : n = ss.next := by
  simp only [SState.exec] at h; cases h; rfl

theorem guard_createCode_of_fresh (ss : SState) (r : Req) (h : IdFresh ss r.id) : Guard ss (.createCode r) := h

theorem safeH_optErr (rc) (o : Option Err) (K) (rs) : safeH rc (optErr o) K rs ↔ (o = none → K rs ()) := by
  cases o
  · simp only [optErr, true_implies]; exact safeH_ok rc () K rs
  · simp only [optErr, reduceCtorEq, false_implies, iff_true]; exact safeH_fail rc _ K rs

theorem sanitize_id (r : Req) (l : List String) : (r.sanitize l).id = r.id := rfl

/-- the tail of the authorization pipeline after the code has been created is calm -/
theorem authz_tail_calm (rc) (cfg : Config) (now : Time) (minNonce : Nat) (client : Client) (q : AuthzReq)
    (hH : isHybrid q.responseTypes = false) (rs : RState) (acc : AuthzAcc) :
    safeH rc (authzImplicit cfg now client q acc)
      (fun rs' a => safeH rc (authzOIDCExplicit q a)
        (fun rs' a => (!(matchesArgs q.responseTypes ["id_token"] || matchesArgs q.responseTypes ["token", "id_token"])) = true →
          safeH rc (authzHybrid cfg now minNonce client q a)
            (fun rs' a => safeH rc (authzPKCE cfg client q a)
              (fun rs' a => safeH rc (pure (Out.authz a.code a.atk a.idt)) (fun _ _ => True) rs') rs') rs') rs') rs := by
  apply safeH_calm_then rc _ _ _ (calmH_authzImplicit _ _ _ _ _); intro rs1 a1
  apply safeH_calm_then rc _ _ _ (calmH_authzOIDCExplicit _ _); intro rs2 a2 _
  rw [authzHybrid_skip _ _ _ _ _ _ hH]
  rw [safeH_pure]
  apply safeH_calm_then rc _ _ _ (calmH_authzPKCE _ _ _ _); intro rs3 a3
  exact trivial

/-- the handler pipeline of `NewAuthorizeResponse`, started on a request whose id nothing stored
    carries, creates its code (if any) under that id before anything else is stored -/
theorem authz_pipeline_safe (rc : RunCfg) (cfg : Config) (now : Time) (minNonce : Nat) (client : Client) (q : AuthzReq)
    (rs : RState) (acc0 : AuthzAcc) (hfresh : IdFresh rs.ss acc0.ar.id) :
    safeH rc (authzExplicit cfg now client q acc0)
      (fun rs' a => safeH rc (authzImplicit cfg now client q a)
        (fun rs' a => safeH rc (authzOIDCExplicit q a)
          (fun rs' a => (!(matchesArgs q.responseTypes ["id_token"] || matchesArgs q.responseTypes ["token", "id_token"])) = true →
            safeH rc (authzHybrid cfg now minNonce client q a)
              (fun rs' a => safeH rc (authzPKCE cfg client q a)
                (fun rs' a => safeH rc (pure (Out.authz a.code a.atk a.idt)) (fun _ _ => True) rs') rs') rs') rs') rs') rs := by
  by_cases hE : exactOne q.responseTypes "code" = true
  · -- plain code flow: the explicit handler creates the code right after the id was allocated
    have hH := exactOne_not_hybrid _ _ hE
    unfold authzExplicit
    simp only [hE, Bool.not_true, Bool.false_eq_true, if_false, safeH_bind, safeH_guard, safeH_optErr,
      safeH_expectNat _ _ _ _ _ (fun _ => calm_retErr _), safeH_pure]
    intro _ _ _
    refine ⟨fun _ => guard_createCode_of_fresh _ _ (by rw [sanitize_id]; exact hfresh), ?_⟩
    intro c _
    exact authz_tail_calm rc cfg now minNonce client q hH _ _
  · have hE' : exactOne q.responseTypes "code" = false := by simpa using hE
    rw [authzExplicit_skip _ _ _ _ _ hE', safeH_pure]
    by_cases hH : isHybrid q.responseTypes = true
    · -- hybrid flow: nothing is stored before the hybrid handler runs
      have hT := hybrid_not_exactOne _ "token" hH
      rw [authzImplicit_skip _ _ _ _ _ hT, safeH_pure, authzOIDCExplicit_skip _ _ hE', safeH_pure]
      intro _
      unfold authzHybrid
      simp only [hH, Bool.not_true, Bool.false_eq_true, if_false, safeH_bind, safeH_guard, safeH_optErr,
        safeH_expectNat _ _ _ _ _ (fun _ => calm_retErr _), safeH_expectOk _ _ _ _ _ (fun _ => calm_retErr _),
        safeH_pure, safeH_ite]
      intro _ _ _ _ _ _
      refine ⟨fun _ => guard_createCode_of_fresh _ _ (by rw [sanitize_id]; exact hfresh), ?_⟩
      intro c _
      -- after the code: createOIDC? createAccess? then PKCE — all calm
      refine ⟨?_, ?_⟩
      · intro _
        refine ⟨guard_trivial _ _ (by guardless), ?_⟩
        intro _
        refine ⟨?_, ?_⟩
        · intro _ _
          refine ⟨guard_trivial _ _ (by guardless), ?_⟩
          intro a _
          apply safeH_calm_then rc _ _ _ (calmH_authzPKCE _ _ _ _); intro _ _; exact trivial
        · intro _
          apply safeH_calm_then rc _ _ _ (calmH_authzPKCE _ _ _ _); intro _ _; exact trivial
      · intro _
        refine ⟨?_, ?_⟩
        · intro _ _
          refine ⟨guard_trivial _ _ (by guardless), ?_⟩
          intro a _
          apply safeH_calm_then rc _ _ _ (calmH_authzPKCE _ _ _ _); intro _ _; exact trivial
        · intro _
          apply safeH_calm_then rc _ _ _ (calmH_authzPKCE _ _ _ _); intro _ _; exact trivial
    · have hH' : isHybrid q.responseTypes = false := by simpa using hH
      exact authz_tail_calm rc cfg now minNonce client q hH' _ _


/-- the authorization endpoint creates a code only under a request id nothing else carries -/
theorem authorize_safe (rc : RunCfg) (hp : Plain rc) (cfg : Config) (now : Time) (minNonce : Nat) (q : AuthzReq) (rs : RState)
    (hinv : GInv rs.ss) : safeH rc (authorizeH cfg now minNonce q) (fun _ _ => True) rs := by
  have hnf := hp.1
  have nf : ∀ rs c e, (RState.step rc rs c).2 ≠ .fail e := fun rs c e => step_no_fail rc hnf rs c e
  unfold authorizeH
  simp only [safeH_bind, safeH_guard, safeH_expectClient, safeH_expectNat _ _ _ _ _ (fun _ => calm_retErr _), safeH_optErr]
  intro _
  refine ⟨guard_trivial _ _ (by guardless), ?_⟩
  intro client hcl _ _
  refine ⟨guard_trivial _ _ (by guardless), ?_⟩
  intro n hn
  have h1 := step_eq_exec rc rs (.getClient q.clientId) rfl _ hcl (by intro e; simp)
  rw [exec_getClient_fst] at h1
  have h2 := step_eq_exec rc (rs.step rc (.getClient q.clientId)).1 .newId rfl _ hn (by intro e; simp)
  rw [h1.1] at h2
  have hnn := exec_newId_nat _ _ h2.2
  have hfresh : IdFresh (RState.step rc (RState.step rc rs (.getClient q.clientId)).1 .newId).1.ss n := by
    rw [h2.1, hnn]; exact idFresh_after_newId rs.ss hinv
  exact authz_pipeline_safe rc cfg now minNonce client q _ { ar := authzBaseReq now client q n } hfresh

end Fosite.Model

/-
  The grant invariant: what ties a refresh token to its request id index, codes to the
  grants they belong to, and stored device authorizations / pushed authorization requests to the
  request id they will issue codes and tokens under.  Preserved by every storage call, provided
  `createCode` / `createRefresh` / `createDevice` / `createPAR` are only issued under their guards
  (which the handlers guarantee — `Proofs/Safe*.lean`).
-/
import Fosite.Proofs.Effects
namespace Fosite.Model

structure GInv (ss : SState) : Prop where
  codesBelow : ∀ sig rec, alookup ss.store.codes sig = some rec → sig < ss.next ∧ rec.req.id < ss.next
  refreshBelow : ∀ sig rec, alookup ss.store.refresh sig = some rec → sig < ss.next ∧ rec.req.id < ss.next
  /-- an active refresh token is the one its request id points at -/
  idx : ∀ sig rec, alookup ss.store.refresh sig = some rec → rec.active = true →
    alookup ss.store.rtIdx rec.req.id = some sig
  /-- an unredeemed code's authorization has no refresh token yet -/
  codeRT : ∀ cs crec sig rec, alookup ss.store.codes cs = some crec → crec.active = true →
    alookup ss.store.refresh sig = some rec → rec.req.id ≠ crec.req.id
  /-- request ids identify codes -/
  codeIds : ∀ s1 s2 c1 c2, alookup ss.store.codes s1 = some c1 → alookup ss.store.codes s2 = some c2 →
    c1.req.id = c2.req.id → s1 = s2
  devBelow : ∀ sig d, alookup ss.store.device sig = some d → sig < ss.next ∧ d.req.id < ss.next
  parBelow : ∀ u p, alookup ss.store.par u = some p → u < ss.next ∧ p.req.id < ss.next
  /-- the request id of a live (not yet exchanged) device authorization is carried by no refresh
      token and no code -/
  devFresh : ∀ sig d, alookup ss.store.device sig = some d → d.used = false →
    (∀ s rec, alookup ss.store.refresh s = some rec → rec.req.id ≠ d.req.id) ∧
    (∀ s c, alookup ss.store.codes s = some c → c.req.id ≠ d.req.id)
  /-- the request id of a stored pushed authorization request is carried by no refresh token and no code -/
  parFresh : ∀ u p, alookup ss.store.par u = some p →
    (∀ s rec, alookup ss.store.refresh s = some rec → rec.req.id ≠ p.req.id) ∧
    (∀ s c, alookup ss.store.codes s = some c → c.req.id ≠ p.req.id)
  /-- request ids identify device authorizations -/
  devIds : ∀ s1 s2 d1 d2, alookup ss.store.device s1 = some d1 → alookup ss.store.device s2 = some d2 →
    d1.req.id = d2.req.id → s1 = s2
  /-- request ids identify pushed authorization requests -/
  parIds : ∀ u1 u2 p1 p2, alookup ss.store.par u1 = some p1 → alookup ss.store.par u2 = some p2 →
    p1.req.id = p2.req.id → u1 = u2
  /-- a device authorization and a pushed request never share a request id -/
  devPar : ∀ sig d u p, alookup ss.store.device sig = some d → alookup ss.store.par u = some p →
    d.req.id ≠ p.req.id

/-- no live device authorization and no pushed request is stored under request id `n` -/
def NoPending (ss : SState) (n : Nat) : Prop :=
  (∀ s d, alookup ss.store.device s = some d → d.used = false → d.req.id ≠ n) ∧
  (∀ u p, alookup ss.store.par u = some p → p.req.id ≠ n)

/-- request id `n` has been allocated and is carried by no stored record of any kind -/
def IdUnused (ss : SState) (n : Nat) : Prop :=
  n < ss.next ∧
  (∀ sig rec, alookup ss.store.refresh sig = some rec → rec.req.id ≠ n) ∧
  (∀ s c, alookup ss.store.codes s = some c → c.req.id ≠ n) ∧
  (∀ s d, alookup ss.store.device s = some d → d.req.id ≠ n) ∧
  (∀ u p, alookup ss.store.par u = some p → p.req.id ≠ n)

/-- The conditions under which the four record-creating calls keep the invariant.
    * a code is created under an id that no refresh token, no code, no live device authorization
      and no stored pushed request carries (a fresh id, or the id of a pushed request that has just
      been deleted);
    * a refresh token is created under an id that no *active* refresh token, no *active* code, no
      live device authorization and no pushed request carries (a fresh id, the id of a code that
      has just been invalidated, of a refresh token that has just been rotated away, or of a device
      authorization that has just been invalidated);
    * device authorizations and pushed requests are stored under an unused id. -/
def Guard (ss : SState) : Call → Prop
  | .createCode r => r.id < ss.next ∧
      (∀ sig rec, alookup ss.store.refresh sig = some rec → rec.req.id ≠ r.id) ∧
      (∀ s c, alookup ss.store.codes s = some c → c.req.id ≠ r.id) ∧
      NoPending ss r.id
  | .createRefresh _ r => r.id < ss.next ∧
      (∀ sig rec, alookup ss.store.refresh sig = some rec → rec.active = true → rec.req.id ≠ r.id) ∧
      (∀ s c, alookup ss.store.codes s = some c → c.active = true → c.req.id ≠ r.id) ∧
      NoPending ss r.id
  | .createDevice d => IdUnused ss d.req.id
  | .createPAR p => IdUnused ss p.req.id
  | _ => True

def CodesWeaker (l l' : List (Nat × CodeRec)) : Prop :=
  ∀ sig rec', alookup l' sig = some rec' → ∃ rec, alookup l sig = some rec ∧ rec.req = rec'.req ∧ (rec'.active = true → rec.active = true)
def RefreshWeaker (l l' : List (Nat × RefreshRec)) : Prop :=
  ∀ sig rec', alookup l' sig = some rec' → ∃ rec, alookup l sig = some rec ∧ rec.req = rec'.req ∧ (rec'.active = true → rec.active = true)

/-- device authorizations only disappear, get marked used, or get their request edited (same id) -/
def DevWeaker (l l' : List (Nat × DevRec)) : Prop :=
  ∀ sig d', alookup l' sig = some d' → ∃ d, alookup l sig = some d ∧ d.req.id = d'.req.id ∧ (d'.used = false → d.used = false)
/-- pushed requests only disappear -/
def ParWeaker (l l' : List (Nat × ParRec)) : Prop :=
  ∀ u p', alookup l' u = some p' → ∃ p, alookup l u = some p ∧ p.req.id = p'.req.id

theorem DevWeaker.refl (l) : DevWeaker l l := fun _ d' h => ⟨d', h, rfl, id⟩
theorem ParWeaker.refl (l) : ParWeaker l l := fun _ p' h => ⟨p', h, rfl⟩

theorem DevWeaker.del (l : List (Nat × DevRec)) (sig : Nat) : DevWeaker l (adel l sig) := by
  intro s d' h
  rw [alookup_adel] at h
  by_cases hs : s = sig
  · simp [hs] at h
  · simp only [hs, if_false] at h; exact ⟨d', h, rfl, id⟩

/-- overwriting a record by one with the same request id that is not "less used" -/
theorem DevWeaker.set (l : List (Nat × DevRec)) (sig : Nat) (d dn : DevRec) (hl : alookup l sig = some d)
    (hid : d.req.id = dn.req.id) (hu : dn.used = false → d.used = false) : DevWeaker l (aset l sig dn) := by
  intro s d' h
  rw [alookup_aset] at h
  by_cases hs : s = sig
  · subst hs; simp only [if_true] at h; cases h
    exact ⟨d, hl, hid, hu⟩
  · simp only [hs, if_false] at h; exact ⟨d', h, rfl, id⟩

theorem ParWeaker.del (l : List (Nat × ParRec)) (u : Nat) : ParWeaker l (adel l u) := by
  intro s p' h
  rw [alookup_adel] at h
  by_cases hs : s = u
  · simp [hs] at h
  · simp only [hs, if_false] at h; exact ⟨p', h, rfl⟩

theorem CodesWeaker.refl (l) : CodesWeaker l l := fun _ rec' h => ⟨rec', h, rfl, id⟩
theorem RefreshWeaker.refl (l) : RefreshWeaker l l := fun _ rec' h => ⟨rec', h, rfl, id⟩

theorem CodesWeaker.deact (l : List (Nat × CodeRec)) (sig : Nat) (rec : CodeRec) (hl : alookup l sig = some rec) :
    CodesWeaker l (aset l sig { rec with active := false }) := by
  intro s rec' h
  rw [alookup_aset] at h
  by_cases hs : s = sig
  · subst hs; simp only [if_true] at h; cases h
    exact ⟨rec, hl, rfl, by intro h; cases h⟩
  · simp only [hs, if_false] at h; exact ⟨rec', h, rfl, id⟩

theorem RefreshWeaker.deact (l : List (Nat × RefreshRec)) (sig : Nat) (rec : RefreshRec) (hl : alookup l sig = some rec) :
    RefreshWeaker l (aset l sig { rec with active := false }) := by
  intro s rec' h
  rw [alookup_aset] at h
  by_cases hs : s = sig
  · subst hs; simp only [if_true] at h; cases h
    exact ⟨rec, hl, rfl, by intro h; cases h⟩
  · simp only [hs, if_false] at h; exact ⟨rec', h, rfl, id⟩

theorem RefreshWeaker.del (l : List (Nat × RefreshRec)) (sig : Nat) : RefreshWeaker l (adel l sig) := by
  intro s rec' h
  rw [alookup_adel] at h
  by_cases hs : s = sig
  · simp [hs] at h
  · simp only [hs, if_false] at h; exact ⟨rec', h, rfl, id⟩

/-- weakening (deactivating / deleting records, minting) keeps the invariant -/
theorem GInv.weaken (ss ss' : SState) (h : GInv ss)
    (hc : CodesWeaker ss.store.codes ss'.store.codes) (hr : RefreshWeaker ss.store.refresh ss'.store.refresh)
    (hd : DevWeaker ss.store.device ss'.store.device) (hp : ParWeaker ss.store.par ss'.store.par)
    (hi : ss'.store.rtIdx = ss.store.rtIdx) (hn : ss.next ≤ ss'.next) : GInv ss' := by
  constructor
  · intro sig rec' hl
    obtain ⟨rec, hl0, hreq, _⟩ := hc sig rec' hl
    have := h.codesBelow sig rec hl0
    rw [← hreq]; omega
  · intro sig rec' hl
    obtain ⟨rec, hl0, hreq, _⟩ := hr sig rec' hl
    have := h.refreshBelow sig rec hl0
    rw [← hreq]; omega
  · intro sig rec' hl ha
    obtain ⟨rec, hl0, hreq, hact⟩ := hr sig rec' hl
    rw [hi, ← hreq]; exact h.idx sig rec hl0 (hact ha)
  · intro cs crec' sig rec' hcl hca hrl
    obtain ⟨crec, hcl0, hcreq, hcact⟩ := hc cs crec' hcl
    obtain ⟨rec, hrl0, hrreq, _⟩ := hr sig rec' hrl
    rw [← hcreq, ← hrreq]; exact h.codeRT cs crec sig rec hcl0 (hcact hca) hrl0
  · intro s1 s2 c1' c2' h1 h2 heq
    obtain ⟨c1, h10, hr1, _⟩ := hc s1 c1' h1
    obtain ⟨c2, h20, hr2, _⟩ := hc s2 c2' h2
    exact h.codeIds s1 s2 c1 c2 h10 h20 (by rw [hr1, hr2]; exact heq)
  · intro sig d' hl
    obtain ⟨d, hl0, hid, _⟩ := hd sig d' hl
    have := h.devBelow sig d hl0
    rw [← hid]; omega
  · intro u p' hl
    obtain ⟨p, hl0, hid⟩ := hp u p' hl
    have := h.parBelow u p hl0
    rw [← hid]; omega
  · intro sig d' hl hu
    obtain ⟨d, hl0, hid, hused⟩ := hd sig d' hl
    obtain ⟨f1, f2⟩ := h.devFresh sig d hl0 (hused hu)
    refine ⟨?_, ?_⟩
    · intro s rec' hrl
      obtain ⟨rec, hrl0, hrreq, _⟩ := hr s rec' hrl
      rw [← hid, ← hrreq]; exact f1 s rec hrl0
    · intro s c' hcl
      obtain ⟨c, hcl0, hcreq, _⟩ := hc s c' hcl
      rw [← hid, ← hcreq]; exact f2 s c hcl0
  · intro u p' hl
    obtain ⟨p, hl0, hid⟩ := hp u p' hl
    obtain ⟨f1, f2⟩ := h.parFresh u p hl0
    refine ⟨?_, ?_⟩
    · intro s rec' hrl
      obtain ⟨rec, hrl0, hrreq, _⟩ := hr s rec' hrl
      rw [← hid, ← hrreq]; exact f1 s rec hrl0
    · intro s c' hcl
      obtain ⟨c, hcl0, hcreq, _⟩ := hc s c' hcl
      rw [← hid, ← hcreq]; exact f2 s c hcl0
  · intro s1 s2 d1' d2' h1 h2 heq
    obtain ⟨d1, h10, hi1, _⟩ := hd s1 d1' h1
    obtain ⟨d2, h20, hi2, _⟩ := hd s2 d2' h2
    exact h.devIds s1 s2 d1 d2 h10 h20 (by rw [hi1, hi2]; exact heq)
  · intro u1 u2 p1' p2' h1 h2 heq
    obtain ⟨p1, h10, hi1⟩ := hp u1 p1' h1
    obtain ⟨p2, h20, hi2⟩ := hp u2 p2' h2
    exact h.parIds u1 u2 p1 p2 h10 h20 (by rw [hi1, hi2]; exact heq)
  · intro sig d' u p' h1 h2
    obtain ⟨d, h10, hi1, _⟩ := hd sig d' h1
    obtain ⟨p, h20, hi2⟩ := hp u p' h2
    rw [← hi1, ← hi2]; exact h.devPar sig d u p h10 h20

theorem exec_codes_weaker_or_create (ss : SState) (c : Call) :
    (∃ r, c = .createCode r) ∨ CodesWeaker ss.store.codes (ss.exec c).1.store.codes := by
  rcases exec_codes_cases ss c with he | ⟨r, hc, _⟩ | ⟨sig, rec, _, hl, he⟩
  · right; rw [he]; exact CodesWeaker.refl _
  · left; exact ⟨r, hc⟩
  · right; rw [he]; exact CodesWeaker.deact _ _ _ hl

theorem exec_createCode_effect (ss : SState) (r : Req) :
    (ss.exec (.createCode r)).1.store.codes = aset ss.store.codes ss.next { active := true, req := r } ∧
    (ss.exec (.createCode r)).1.store.refresh = ss.store.refresh ∧
    (ss.exec (.createCode r)).1.store.rtIdx = ss.store.rtIdx ∧
    (ss.exec (.createCode r)).1.next = ss.next + 1 := by
  simp [SState.exec]

theorem exec_createRefresh_effect (ss : SState) (a : Nat) (r : Req) :
    (ss.exec (.createRefresh a r)).1.store.codes = ss.store.codes ∧
    (ss.exec (.createRefresh a r)).1.store.refresh = aset ss.store.refresh ss.next { active := true, atSig := a, req := r } ∧
    (ss.exec (.createRefresh a r)).1.store.rtIdx = aset ss.store.rtIdx r.id ss.next ∧
    (ss.exec (.createRefresh a r)).1.next = ss.next + 1 := by
  simp [SState.exec]

theorem exec_refresh_weaker (ss : SState) (c : Call) (hc : ∀ a r, c ≠ .createRefresh a r) :
    RefreshWeaker ss.store.refresh (ss.exec c).1.store.refresh ∧ (ss.exec c).1.store.rtIdx = ss.store.rtIdx := by
  have same : ∀ ss' : SState, ss'.store.refresh = ss.store.refresh → ss'.store.rtIdx = ss.store.rtIdx →
      RefreshWeaker ss.store.refresh ss'.store.refresh ∧ ss'.store.rtIdx = ss.store.rtIdx :=
    fun ss' h1 h2 => ⟨by rw [h1]; exact RefreshWeaker.refl _, h2⟩
  cases c with
  | createRefresh a r => exact absurd rfl (hc a r)
  | deleteRefresh k =>
    cases k with
    | none => exact same _ (by simp [SState.exec]) (by simp [SState.exec])
    | some sig => exact ⟨by simp only [SState.exec]; exact RefreshWeaker.del _ _, by simp [SState.exec]⟩
  | revokeRefresh rid =>
    have he := revokeRefreshS_effect ss.store rid
    simp only [SState.exec]
    rcases he.1 with h | ⟨sig, rec, _, hl, h⟩
    · exact ⟨by rw [h]; exact RefreshWeaker.refl _, he.2.1⟩
    · exact ⟨by rw [h]; exact RefreshWeaker.deact _ _ _ hl, he.2.1⟩
  | rotateRefresh rid k =>
    have he := revokeRefreshS_effect ss.store rid
    have ha := revokeAccessS_effect (revokeRefreshS ss.store rid).1 rid
    simp only [SState.exec]
    cases hres : (revokeRefreshS ss.store rid).2 <;> simp only <;>
      (rcases he.1 with h | ⟨sig, rec, _, hl, h⟩
       · first
         | exact ⟨by rw [ha.1, h]; exact RefreshWeaker.refl _, by rw [ha.2.1]; exact he.2.1⟩
         | exact ⟨by rw [h]; exact RefreshWeaker.refl _, he.2.1⟩
       · first
         | exact ⟨by rw [ha.1, h]; exact RefreshWeaker.deact _ _ _ hl, by rw [ha.2.1]; exact he.2.1⟩
         | exact ⟨by rw [h]; exact RefreshWeaker.deact _ _ _ hl, he.2.1⟩)
  | revokeAccess rid =>
    have ha := revokeAccessS_effect ss.store rid
    simp only [SState.exec]
    exact ⟨by rw [ha.1]; exact RefreshWeaker.refl _, ha.2.1⟩
  | getClient _ => apply same <;> (simp only [SState.exec]; split <;> rfl)
  | getCode _ => apply same <;> (simp only [SState.exec]; (repeat' split) <;> rfl)
  | invalidateCode _ => apply same <;> (simp only [SState.exec]; (repeat' split) <;> rfl)
  | createCode _ => apply same <;> simp [SState.exec]
  | createAccess _ => apply same <;> simp [SState.exec]
  | getAccess _ => apply same <;> (simp only [SState.exec]; split <;> rfl)
  | deleteAccess _ => apply same <;> (simp only [SState.exec]; split <;> rfl)
  | getRefresh _ => apply same <;> (simp only [SState.exec]; (repeat' split) <;> rfl)
  | createPKCE _ _ => apply same <;> simp [SState.exec]
  | getPKCE _ => apply same <;> (simp only [SState.exec]; split <;> rfl)
  | deletePKCE _ => apply same <;> (simp only [SState.exec]; split <;> rfl)
  | createOIDC _ _ => apply same <;> simp [SState.exec]
  | getOIDC _ => apply same <;> (simp only [SState.exec]; split <;> rfl)
  | deleteOIDC _ => apply same <;> (simp only [SState.exec]; split <;> rfl)
  | beginTx => apply same <;> simp [SState.exec]
  | commitTx => apply same <;> simp [SState.exec]
  | rollbackTx => apply same <;> simp [SState.exec]
  | newId => apply same <;> simp [SState.exec]
  | createPAR _ => apply same <;> simp [SState.exec]
  | getPAR _ => apply same <;> (simp only [SState.exec]; split <;> rfl)
  | deletePAR _ => apply same <;> (simp only [SState.exec]; split <;> rfl)
  | createDevice _ => apply same <;> simp [SState.exec]
  | getDevice _ => apply same <;> (simp only [SState.exec]; (repeat' split) <;> rfl)
  | invalidateDevice _ => apply same <;> (simp only [SState.exec]; (repeat' split) <;> rfl)
  | authenticateUser _ _ => apply same <;> (simp only [SState.exec]; split <;> rfl)

theorem exec_createCode_frame (ss : SState) (r : Req) :
    (ss.exec (.createCode r)).1.store.device = ss.store.device ∧
    (ss.exec (.createCode r)).1.store.par = ss.store.par := by
  simp [SState.exec]

theorem exec_createRefresh_frame (ss : SState) (a : Nat) (r : Req) :
    (ss.exec (.createRefresh a r)).1.store.device = ss.store.device ∧
    (ss.exec (.createRefresh a r)).1.store.par = ss.store.par := by
  simp [SState.exec]

theorem exec_createDevice_effect (ss : SState) (d : DevRec) :
    (ss.exec (.createDevice d)).1.store.codes = ss.store.codes ∧
    (ss.exec (.createDevice d)).1.store.refresh = ss.store.refresh ∧
    (ss.exec (.createDevice d)).1.store.rtIdx = ss.store.rtIdx ∧
    (ss.exec (.createDevice d)).1.store.par = ss.store.par ∧
    (ss.exec (.createDevice d)).1.store.device = aset ss.store.device ss.next { d with userSig := ss.next + 1 } ∧
    (ss.exec (.createDevice d)).1.next = ss.next + 2 := by
  simp [SState.exec]

theorem exec_createPAR_effect (ss : SState) (p : ParRec) :
    (ss.exec (.createPAR p)).1.store.codes = ss.store.codes ∧
    (ss.exec (.createPAR p)).1.store.refresh = ss.store.refresh ∧
    (ss.exec (.createPAR p)).1.store.rtIdx = ss.store.rtIdx ∧
    (ss.exec (.createPAR p)).1.store.device = ss.store.device ∧
    (ss.exec (.createPAR p)).1.store.par = aset ss.store.par ss.next p ∧
    (ss.exec (.createPAR p)).1.next = ss.next + 1 := by
  simp [SState.exec]

theorem exec_device_weaker (ss : SState) (c : Call) (hc : ∀ d, c ≠ .createDevice d) :
    DevWeaker ss.store.device (ss.exec c).1.store.device := by
  have same : ∀ ss' : SState, ss'.store.device = ss.store.device → DevWeaker ss.store.device ss'.store.device :=
    fun ss' h1 => by rw [h1]; exact DevWeaker.refl _
  cases c with
  | createDevice d => exact absurd rfl (hc d)
  | invalidateDevice k =>
    cases k with
    | none => exact same _ (by simp [SState.exec])
    | some sig =>
      simp only [SState.exec]
      by_cases hm : ss.devMark = true
      · simp only [hm, if_true]
        cases hl : alookup ss.store.device sig with
        | none => exact DevWeaker.refl _
        | some d => exact DevWeaker.set _ _ d _ hl rfl (by intro h; cases h)
      · simp only [hm, Bool.false_eq_true, if_false]
        exact DevWeaker.del _ _
  | revokeRefresh rid => apply same; simp only [SState.exec, revokeRefreshS]; (repeat' split) <;> rfl
  | rotateRefresh rid k => apply same; simp only [SState.exec, revokeRefreshS, revokeAccessS]; (repeat' split) <;> rfl
  | revokeAccess rid => apply same; simp only [SState.exec, revokeAccessS]
  | deleteRefresh _ => apply same; simp only [SState.exec]; split <;> rfl
  | createRefresh _ _ => apply same; simp [SState.exec]
  | getClient _ => apply same; simp only [SState.exec]; split <;> rfl
  | getCode _ => apply same; simp only [SState.exec]; (repeat' split) <;> rfl
  | invalidateCode _ => apply same; simp only [SState.exec]; (repeat' split) <;> rfl
  | createCode _ => apply same; simp [SState.exec]
  | createAccess _ => apply same; simp [SState.exec]
  | getAccess _ => apply same; simp only [SState.exec]; split <;> rfl
  | deleteAccess _ => apply same; simp only [SState.exec]; split <;> rfl
  | getRefresh _ => apply same; simp only [SState.exec]; (repeat' split) <;> rfl
  | createPKCE _ _ => apply same; simp [SState.exec]
  | getPKCE _ => apply same; simp only [SState.exec]; split <;> rfl
  | deletePKCE _ => apply same; simp only [SState.exec]; split <;> rfl
  | createOIDC _ _ => apply same; simp [SState.exec]
  | getOIDC _ => apply same; simp only [SState.exec]; split <;> rfl
  | deleteOIDC _ => apply same; simp only [SState.exec]; split <;> rfl
  | beginTx => apply same; simp [SState.exec]
  | commitTx => apply same; simp [SState.exec]
  | rollbackTx => apply same; simp [SState.exec]
  | newId => apply same; simp [SState.exec]
  | createPAR _ => apply same; simp [SState.exec]
  | getPAR _ => apply same; simp only [SState.exec]; split <;> rfl
  | deletePAR _ => apply same; simp only [SState.exec]; split <;> rfl
  | getDevice _ => apply same; simp only [SState.exec]; (repeat' split) <;> rfl
  | authenticateUser _ _ => apply same; simp only [SState.exec]; split <;> rfl

theorem exec_par_weaker (ss : SState) (c : Call) (hc : ∀ p, c ≠ .createPAR p) :
    ParWeaker ss.store.par (ss.exec c).1.store.par := by
  have same : ∀ ss' : SState, ss'.store.par = ss.store.par → ParWeaker ss.store.par ss'.store.par :=
    fun ss' h1 => by rw [h1]; exact ParWeaker.refl _
  cases c with
  | createPAR p => exact absurd rfl (hc p)
  | deletePAR k =>
    cases k with
    | none => exact same _ (by simp [SState.exec])
    | some u => simp only [SState.exec]; exact ParWeaker.del _ _
  | revokeRefresh rid => apply same; simp only [SState.exec, revokeRefreshS]; (repeat' split) <;> rfl
  | rotateRefresh rid k => apply same; simp only [SState.exec, revokeRefreshS, revokeAccessS]; (repeat' split) <;> rfl
  | revokeAccess rid => apply same; simp only [SState.exec, revokeAccessS]
  | deleteRefresh _ => apply same; simp only [SState.exec]; split <;> rfl
  | createRefresh _ _ => apply same; simp [SState.exec]
  | getClient _ => apply same; simp only [SState.exec]; split <;> rfl
  | getCode _ => apply same; simp only [SState.exec]; (repeat' split) <;> rfl
  | invalidateCode _ => apply same; simp only [SState.exec]; (repeat' split) <;> rfl
  | createCode _ => apply same; simp [SState.exec]
  | createAccess _ => apply same; simp [SState.exec]
  | getAccess _ => apply same; simp only [SState.exec]; split <;> rfl
  | deleteAccess _ => apply same; simp only [SState.exec]; split <;> rfl
  | getRefresh _ => apply same; simp only [SState.exec]; (repeat' split) <;> rfl
  | createPKCE _ _ => apply same; simp [SState.exec]
  | getPKCE _ => apply same; simp only [SState.exec]; split <;> rfl
  | deletePKCE _ => apply same; simp only [SState.exec]; split <;> rfl
  | createOIDC _ _ => apply same; simp [SState.exec]
  | getOIDC _ => apply same; simp only [SState.exec]; split <;> rfl
  | deleteOIDC _ => apply same; simp only [SState.exec]; split <;> rfl
  | beginTx => apply same; simp [SState.exec]
  | commitTx => apply same; simp [SState.exec]
  | rollbackTx => apply same; simp [SState.exec]
  | newId => apply same; simp [SState.exec]
  | createDevice _ => apply same; simp [SState.exec]
  | getPAR _ => apply same; simp only [SState.exec]; split <;> rfl
  | getDevice _ => apply same; simp only [SState.exec]; (repeat' split) <;> rfl
  | invalidateDevice _ => apply same; simp only [SState.exec]; (repeat' split) <;> rfl
  | authenticateUser _ _ => apply same; simp only [SState.exec]; split <;> rfl

/-- calls that need a guard -/
def Call.guarded : Call → Bool
  | .createCode _ | .createRefresh _ _ | .createDevice _ | .createPAR _ => true
  | _ => false

theorem exec_GInv_other (ss : SState) (c : Call) (h : GInv ss) (hc : c.guarded = false) : GInv (ss.exec c).1 := by
  apply GInv.weaken ss _ h
  · rcases exec_codes_weaker_or_create ss c with ⟨r, hc'⟩ | hw
    · subst hc'; cases hc
    · exact hw
  · exact (exec_refresh_weaker ss c (by intro a r h'; subst h'; cases hc)).1
  · exact exec_device_weaker ss c (by intro d h'; subst h'; cases hc)
  · exact exec_par_weaker ss c (by intro d h'; subst h'; cases hc)
  · exact (exec_refresh_weaker ss c (by intro a r h'; subst h'; cases hc)).2
  · exact exec_next_mono ss c

theorem exec_GInv_createCode (ss : SState) (r : Req) (h : GInv ss) (g : Guard ss (.createCode r)) :
    GInv (ss.exec (.createCode r)).1 := by
  obtain ⟨hc, hr, hi, hn⟩ := exec_createCode_effect ss r
  obtain ⟨hd, hp⟩ := exec_createCode_frame ss r
  obtain ⟨gid, grt, gcd, gdev, gpar⟩ := g
  constructor
  · intro sig rec hl
    rw [hc, alookup_aset] at hl; rw [hn]
    by_cases hs : sig = ss.next
    · subst hs; simp only [if_true] at hl; cases hl; exact ⟨by omega, by simpa using Nat.lt_succ_of_lt gid⟩
    · simp only [hs, if_false] at hl; have := h.codesBelow sig rec hl; omega
  · intro sig rec hl
    rw [hr] at hl; rw [hn]; have := h.refreshBelow sig rec hl; omega
  · intro sig rec hl ha
    rw [hr] at hl; rw [hi]; exact h.idx sig rec hl ha
  · intro cs crec sig rec hcl hca hrl
    rw [hc, alookup_aset] at hcl; rw [hr] at hrl
    by_cases hs : cs = ss.next
    · subst hs; simp only [if_true] at hcl; cases hcl; exact grt sig rec hrl
    · simp only [hs, if_false] at hcl; exact h.codeRT cs crec sig rec hcl hca hrl
  · intro s1 s2 c1 c2 h1 h2 heq
    rw [hc, alookup_aset] at h1 h2
    by_cases hs1 : s1 = ss.next <;> by_cases hs2 : s2 = ss.next
    · rw [hs1, hs2]
    · simp only [hs1, if_true] at h1; simp only [hs2, if_false] at h2; cases h1
      exact absurd heq.symm (gcd s2 c2 h2)
    · simp only [hs1, if_false] at h1; simp only [hs2, if_true] at h2; cases h2
      exact absurd heq (gcd s1 c1 h1)
    · simp only [hs1, if_false] at h1; simp only [hs2, if_false] at h2
      exact h.codeIds s1 s2 c1 c2 h1 h2 heq
  · intro sig d hl
    rw [hd] at hl; rw [hn]; have := h.devBelow sig d hl; omega
  · intro u p hl
    rw [hp] at hl; rw [hn]; have := h.parBelow u p hl; omega
  · intro sig d hl hu
    rw [hd] at hl; rw [hr, hc]
    obtain ⟨f1, f2⟩ := h.devFresh sig d hl hu
    refine ⟨f1, ?_⟩
    intro s c hcl
    rw [alookup_aset] at hcl
    by_cases hs : s = ss.next
    · simp only [hs, if_true] at hcl; cases hcl; exact fun heq => gdev sig d hl hu heq.symm
    · simp only [hs, if_false] at hcl; exact f2 s c hcl
  · intro u p hl
    rw [hp] at hl; rw [hr, hc]
    obtain ⟨f1, f2⟩ := h.parFresh u p hl
    refine ⟨f1, ?_⟩
    intro s c hcl
    rw [alookup_aset] at hcl
    by_cases hs : s = ss.next
    · simp only [hs, if_true] at hcl; cases hcl; exact fun heq => gpar u p hl heq.symm
    · simp only [hs, if_false] at hcl; exact f2 s c hcl
  · rw [hd]; exact h.devIds
  · rw [hp]; exact h.parIds
  · rw [hd, hp]; exact h.devPar

theorem exec_GInv_createRefresh (ss : SState) (a : Nat) (r : Req) (h : GInv ss) (g : Guard ss (.createRefresh a r)) :
    GInv (ss.exec (.createRefresh a r)).1 := by
  obtain ⟨hc, hr, hi, hn⟩ := exec_createRefresh_effect ss a r
  obtain ⟨hd, hp⟩ := exec_createRefresh_frame ss a r
  obtain ⟨gid, grt, gcd, gdev, gpar⟩ := g
  constructor
  · intro sig rec hl
    rw [hc] at hl; rw [hn]; have := h.codesBelow sig rec hl; omega
  · intro sig rec hl
    rw [hr, alookup_aset] at hl; rw [hn]
    by_cases hs : sig = ss.next
    · subst hs; simp only [if_true] at hl; cases hl; exact ⟨by omega, by simpa using Nat.lt_succ_of_lt gid⟩
    · simp only [hs, if_false] at hl; have := h.refreshBelow sig rec hl; omega
  · intro sig rec hl ha
    rw [hr, alookup_aset] at hl; rw [hi, alookup_aset]
    by_cases hs : sig = ss.next
    · subst hs; simp only [if_true] at hl; cases hl; simp
    · simp only [hs, if_false] at hl
      have hne : rec.req.id ≠ r.id := grt sig rec hl ha
      simp only [hne, if_false]; exact h.idx sig rec hl ha
  · intro cs crec sig rec hcl hca hrl
    rw [hc] at hcl; rw [hr, alookup_aset] at hrl
    by_cases hs : sig = ss.next
    · subst hs; simp only [if_true] at hrl; cases hrl
      exact fun heq => gcd cs crec hcl hca heq.symm
    · simp only [hs, if_false] at hrl; exact h.codeRT cs crec sig rec hcl hca hrl
  · intro s1 s2 c1 c2 h1 h2 heq
    rw [hc] at h1 h2; exact h.codeIds s1 s2 c1 c2 h1 h2 heq
  · intro sig d hl
    rw [hd] at hl; rw [hn]; have := h.devBelow sig d hl; omega
  · intro u p hl
    rw [hp] at hl; rw [hn]; have := h.parBelow u p hl; omega
  · intro sig d hl hu
    rw [hd] at hl; rw [hr, hc]
    obtain ⟨f1, f2⟩ := h.devFresh sig d hl hu
    refine ⟨?_, f2⟩
    intro s rec hrl
    rw [alookup_aset] at hrl
    by_cases hs : s = ss.next
    · simp only [hs, if_true] at hrl; cases hrl; exact fun heq => gdev sig d hl hu heq.symm
    · simp only [hs, if_false] at hrl; exact f1 s rec hrl
  · intro u p hl
    rw [hp] at hl; rw [hr, hc]
    obtain ⟨f1, f2⟩ := h.parFresh u p hl
    refine ⟨?_, f2⟩
    intro s rec hrl
    rw [alookup_aset] at hrl
    by_cases hs : s = ss.next
    · simp only [hs, if_true] at hrl; cases hrl; exact fun heq => gpar u p hl heq.symm
    · simp only [hs, if_false] at hrl; exact f1 s rec hrl
  · rw [hd]; exact h.devIds
  · rw [hp]; exact h.parIds
  · rw [hd, hp]; exact h.devPar

theorem exec_GInv_createDevice (ss : SState) (d : DevRec) (h : GInv ss) (g : Guard ss (.createDevice d)) :
    GInv (ss.exec (.createDevice d)).1 := by
  obtain ⟨hc, hr, hi, hp, hd, hn⟩ := exec_createDevice_effect ss d
  obtain ⟨gid, grt, gcd, gdev, gpar⟩ := g
  constructor
  · intro sig rec hl
    rw [hc] at hl; rw [hn]; have := h.codesBelow sig rec hl; omega
  · intro sig rec hl
    rw [hr] at hl; rw [hn]; have := h.refreshBelow sig rec hl; omega
  · rw [hr, hi]; exact h.idx
  · rw [hc, hr]; exact h.codeRT
  · rw [hc]; exact h.codeIds
  · intro sig d' hl
    rw [hd, alookup_aset] at hl; rw [hn]
    by_cases hs : sig = ss.next
    · subst hs; simp only [if_true] at hl; cases hl
      exact ⟨by omega, by show d.req.id < _; omega⟩
    · simp only [hs, if_false] at hl; have := h.devBelow sig d' hl; omega
  · intro u p hl
    rw [hp] at hl; rw [hn]; have := h.parBelow u p hl; omega
  · intro sig d' hl hu
    rw [hd, alookup_aset] at hl; rw [hr, hc]
    by_cases hs : sig = ss.next
    · simp only [hs, if_true] at hl; cases hl; exact ⟨grt, gcd⟩
    · simp only [hs, if_false] at hl; exact h.devFresh sig d' hl hu
  · rw [hp, hr, hc]; exact h.parFresh
  · intro s1 s2 d1 d2 h1 h2 heq
    rw [hd, alookup_aset] at h1 h2
    by_cases hs1 : s1 = ss.next <;> by_cases hs2 : s2 = ss.next
    · rw [hs1, hs2]
    · simp only [hs1, if_true] at h1; simp only [hs2, if_false] at h2; cases h1
      exact absurd heq.symm (gdev s2 d2 h2)
    · simp only [hs1, if_false] at h1; simp only [hs2, if_true] at h2; cases h2
      exact absurd heq (gdev s1 d1 h1)
    · simp only [hs1, if_false] at h1; simp only [hs2, if_false] at h2
      exact h.devIds s1 s2 d1 d2 h1 h2 heq
  · rw [hp]; exact h.parIds
  · intro sig d' u p h1 h2
    rw [hd, alookup_aset] at h1; rw [hp] at h2
    by_cases hs : sig = ss.next
    · simp only [hs, if_true] at h1; cases h1; exact fun heq => gpar u p h2 heq.symm
    · simp only [hs, if_false] at h1; exact h.devPar sig d' u p h1 h2

theorem exec_GInv_createPAR (ss : SState) (p : ParRec) (h : GInv ss) (g : Guard ss (.createPAR p)) :
    GInv (ss.exec (.createPAR p)).1 := by
  obtain ⟨hc, hr, hi, hd, hp, hn⟩ := exec_createPAR_effect ss p
  obtain ⟨gid, grt, gcd, gdev, gpar⟩ := g
  constructor
  · intro sig rec hl
    rw [hc] at hl; rw [hn]; have := h.codesBelow sig rec hl; omega
  · intro sig rec hl
    rw [hr] at hl; rw [hn]; have := h.refreshBelow sig rec hl; omega
  · rw [hr, hi]; exact h.idx
  · rw [hc, hr]; exact h.codeRT
  · rw [hc]; exact h.codeIds
  · intro sig d hl
    rw [hd] at hl; rw [hn]; have := h.devBelow sig d hl; omega
  · intro u p' hl
    rw [hp, alookup_aset] at hl; rw [hn]
    by_cases hs : u = ss.next
    · subst hs; simp only [if_true] at hl; cases hl; exact ⟨by omega, by omega⟩
    · simp only [hs, if_false] at hl; have := h.parBelow u p' hl; omega
  · rw [hd, hr, hc]; exact h.devFresh
  · intro u p' hl
    rw [hp, alookup_aset] at hl; rw [hr, hc]
    by_cases hs : u = ss.next
    · simp only [hs, if_true] at hl; cases hl; exact ⟨grt, gcd⟩
    · simp only [hs, if_false] at hl; exact h.parFresh u p' hl
  · rw [hd]; exact h.devIds
  · intro u1 u2 p1 p2 h1 h2 heq
    rw [hp, alookup_aset] at h1 h2
    by_cases hs1 : u1 = ss.next <;> by_cases hs2 : u2 = ss.next
    · rw [hs1, hs2]
    · simp only [hs1, if_true] at h1; simp only [hs2, if_false] at h2; cases h1
      exact absurd heq.symm (gpar u2 p2 h2)
    · simp only [hs1, if_false] at h1; simp only [hs2, if_true] at h2; cases h2
      exact absurd heq (gpar u1 p1 h1)
    · simp only [hs1, if_false] at h1; simp only [hs2, if_false] at h2
      exact h.parIds u1 u2 p1 p2 h1 h2 heq
  · intro sig d u p' h1 h2
    rw [hd] at h1; rw [hp, alookup_aset] at h2
    by_cases hs : u = ss.next
    · simp only [hs, if_true] at h2; cases h2; exact gdev sig d h1
    · simp only [hs, if_false] at h2; exact h.devPar sig d u p' h1 h2

/-- **Every storage call preserves the grant invariant under its guard.** -/
theorem exec_GInv (ss : SState) (c : Call) (h : GInv ss) (g : Guard ss c) : GInv (ss.exec c).1 := by
  cases hg : c.guarded with
  | false => exact exec_GInv_other ss c h hg
  | true =>
    cases c with
    | createCode r => exact exec_GInv_createCode ss r h g
    | createRefresh a r => exact exec_GInv_createRefresh ss a r h g
    | createDevice d => exact exec_GInv_createDevice ss d h g
    | createPAR p => exact exec_GInv_createPAR ss p h g
    | _ => cases hg

end Fosite.Model

/-
  The grant invariant: what ties a refresh token to its request id index, and codes to the
  grants they belong to.  Preserved by every storage call, provided `createCode` /
  `createRefresh` are only issued under their guards (which the handlers guarantee —
  `Proofs/Safe*.lean`).
-/
import Fosite.Proofs.Effects
namespace Fosite.Model

structure GInv (ss : SState) : Prop where
  codesBelow : ∀ sig rec, alookup ss.store.codes sig = some rec → sig < ss.next ∧ rec.req.id < ss.next
  refreshBelow : ∀ sig rec, alookup ss.store.refresh sig = some rec → sig < ss.next ∧ rec.req.id < ss.next
  /-- an active refresh token is the one its request id points at -/
  idx : ∀ sig rec, alookup ss.store.refresh sig = some rec → rec.active = true →
    alookup ss.store.rtIdx rec.req.id = some sig
  /-- an unredeemed code's authorization has no refresh token yet -/
  codeRT : ∀ cs crec sig rec, alookup ss.store.codes cs = some crec → crec.active = true →
    alookup ss.store.refresh sig = some rec → rec.req.id ≠ crec.req.id
  /-- request ids identify codes -/
  codeIds : ∀ s1 s2 c1 c2, alookup ss.store.codes s1 = some c1 → alookup ss.store.codes s2 = some c2 →
    c1.req.id = c2.req.id → s1 = s2

/-- the conditions under which the two record-creating calls keep the invariant -/
def Guard (ss : SState) : Call → Prop
  | .createCode r => r.id < ss.next ∧
      (∀ sig rec, alookup ss.store.refresh sig = some rec → rec.req.id ≠ r.id) ∧
      (∀ s c, alookup ss.store.codes s = some c → c.req.id ≠ r.id)
  | .createRefresh _ r => r.id < ss.next ∧
      (∀ sig rec, alookup ss.store.refresh sig = some rec → rec.active = true → rec.req.id ≠ r.id) ∧
      (∀ s c, alookup ss.store.codes s = some c → c.active = true → c.req.id ≠ r.id)
  | _ => True

def CodesWeaker (l l' : List (Nat × CodeRec)) : Prop :=
  ∀ sig rec', alookup l' sig = some rec' → ∃ rec, alookup l sig = some rec ∧ rec.req = rec'.req ∧ (rec'.active = true → rec.active = true)
def RefreshWeaker (l l' : List (Nat × RefreshRec)) : Prop :=
  ∀ sig rec', alookup l' sig = some rec' → ∃ rec, alookup l sig = some rec ∧ rec.req = rec'.req ∧ (rec'.active = true → rec.active = true)

theorem CodesWeaker.refl (l) : CodesWeaker l l := fun _ rec' h => ⟨rec', h, rfl, id⟩
theorem RefreshWeaker.refl (l) : RefreshWeaker l l := fun _ rec' h => ⟨rec', h, rfl, id⟩

theorem CodesWeaker.deact (l : List (Nat × CodeRec)) (sig : Nat) (rec : CodeRec) (hl : alookup l sig = some rec) :
    CodesWeaker l (aset l sig { rec with active := false }) := by
  intro s rec' h
  rw [alookup_aset] at h
  by_cases hs : s = sig
  · subst hs; simp only [if_true] at h; cases h
    exact ⟨rec, hl, rfl, by intro h; cases h⟩
  · simp only [hs, if_false] at h; exact ⟨rec', h, rfl, id⟩

theorem RefreshWeaker.deact (l : List (Nat × RefreshRec)) (sig : Nat) (rec : RefreshRec) (hl : alookup l sig = some rec) :
    RefreshWeaker l (aset l sig { rec with active := false }) := by
  intro s rec' h
  rw [alookup_aset] at h
  by_cases hs : s = sig
  · subst hs; simp only [if_true] at h; cases h
    exact ⟨rec, hl, rfl, by intro h; cases h⟩
  · simp only [hs, if_false] at h; exact ⟨rec', h, rfl, id⟩

theorem RefreshWeaker.del (l : List (Nat × RefreshRec)) (sig : Nat) : RefreshWeaker l (adel l sig) := by
  intro s rec' h
  rw [alookup_adel] at h
  by_cases hs : s = sig
  · simp [hs] at h
  · simp only [hs, if_false] at h; exact ⟨rec', h, rfl, id⟩

/-- weakening (deactivating / deleting records, minting) keeps the invariant -/
theorem GInv.weaken (ss ss' : SState) (h : GInv ss)
    (hc : CodesWeaker ss.store.codes ss'.store.codes) (hr : RefreshWeaker ss.store.refresh ss'.store.refresh)
    (hi : ss'.store.rtIdx = ss.store.rtIdx) (hn : ss.next ≤ ss'.next) : GInv ss' := by
  constructor
  · intro sig rec' hl
    obtain ⟨rec, hl0, hreq, _⟩ := hc sig rec' hl
    have := h.codesBelow sig rec hl0
    rw [← hreq]; omega
  · intro sig rec' hl
    obtain ⟨rec, hl0, hreq, _⟩ := hr sig rec' hl
    have := h.refreshBelow sig rec hl0
    rw [← hreq]; omega
  · intro sig rec' hl ha
    obtain ⟨rec, hl0, hreq, hact⟩ := hr sig rec' hl
    rw [hi, ← hreq]; exact h.idx sig rec hl0 (hact ha)
  · intro cs crec' sig rec' hcl hca hrl
    obtain ⟨crec, hcl0, hcreq, hcact⟩ := hc cs crec' hcl
    obtain ⟨rec, hrl0, hrreq, _⟩ := hr sig rec' hrl
    rw [← hcreq, ← hrreq]; exact h.codeRT cs crec sig rec hcl0 (hcact hca) hrl0
  · intro s1 s2 c1' c2' h1 h2 heq
    obtain ⟨c1, h10, hr1, _⟩ := hc s1 c1' h1
    obtain ⟨c2, h20, hr2, _⟩ := hc s2 c2' h2
    exact h.codeIds s1 s2 c1 c2 h10 h20 (by rw [hr1, hr2]; exact heq)

theorem exec_codes_weaker_or_create (ss : SState) (c : Call) :
    (∃ r, c = .createCode r) ∨ CodesWeaker ss.store.codes (ss.exec c).1.store.codes := by
  rcases exec_codes_cases ss c with he | ⟨r, hc, _⟩ | ⟨sig, rec, _, hl, he⟩
  · right; rw [he]; exact CodesWeaker.refl _
  · left; exact ⟨r, hc⟩
  · right; rw [he]; exact CodesWeaker.deact _ _ _ hl

theorem exec_createCode_effect (ss : SState) (r : Req) :
    (ss.exec (.createCode r)).1.store.codes = aset ss.store.codes ss.next { active := true, req := r } ∧
    (ss.exec (.createCode r)).1.store.refresh = ss.store.refresh ∧
    (ss.exec (.createCode r)).1.store.rtIdx = ss.store.rtIdx ∧
    (ss.exec (.createCode r)).1.next = ss.next + 1 := by
  simp [SState.exec]

theorem exec_createRefresh_effect (ss : SState) (a : Nat) (r : Req) :
    (ss.exec (.createRefresh a r)).1.store.codes = ss.store.codes ∧
    (ss.exec (.createRefresh a r)).1.store.refresh = aset ss.store.refresh ss.next { active := true, atSig := a, req := r } ∧
    (ss.exec (.createRefresh a r)).1.store.rtIdx = aset ss.store.rtIdx r.id ss.next ∧
    (ss.exec (.createRefresh a r)).1.next = ss.next + 1 := by
  simp [SState.exec]

theorem exec_refresh_weaker (ss : SState) (c : Call) (hc : ∀ a r, c ≠ .createRefresh a r) :
    RefreshWeaker ss.store.refresh (ss.exec c).1.store.refresh ∧ (ss.exec c).1.store.rtIdx = ss.store.rtIdx := by
  have same : ∀ ss' : SState, ss'.store.refresh = ss.store.refresh → ss'.store.rtIdx = ss.store.rtIdx →
      RefreshWeaker ss.store.refresh ss'.store.refresh ∧ ss'.store.rtIdx = ss.store.rtIdx :=
    fun ss' h1 h2 => ⟨by rw [h1]; exact RefreshWeaker.refl _, h2⟩
  cases c with
  | createRefresh a r => exact absurd rfl (hc a r)
  | deleteRefresh k =>
    cases k with
    | none => exact same _ (by simp [SState.exec]) (by simp [SState.exec])
    | some sig => exact ⟨by simp only [SState.exec]; exact RefreshWeaker.del _ _, by simp [SState.exec]⟩
  | revokeRefresh rid =>
    have he := revokeRefreshS_effect ss.store rid
    simp only [SState.exec]
    rcases he.1 with h | ⟨sig, rec, _, hl, h⟩
    · exact ⟨by rw [h]; exact RefreshWeaker.refl _, he.2.1⟩
    · exact ⟨by rw [h]; exact RefreshWeaker.deact _ _ _ hl, he.2.1⟩
  | rotateRefresh rid k =>
    have he := revokeRefreshS_effect ss.store rid
    have ha := revokeAccessS_effect (revokeRefreshS ss.store rid).1 rid
    simp only [SState.exec]
    cases hres : (revokeRefreshS ss.store rid).2 <;> simp only <;>
      (rcases he.1 with h | ⟨sig, rec, _, hl, h⟩
       · first
         | exact ⟨by rw [ha.1, h]; exact RefreshWeaker.refl _, by rw [ha.2.1]; exact he.2.1⟩
         | exact ⟨by rw [h]; exact RefreshWeaker.refl _, he.2.1⟩
       · first
         | exact ⟨by rw [ha.1, h]; exact RefreshWeaker.deact _ _ _ hl, by rw [ha.2.1]; exact he.2.1⟩
         | exact ⟨by rw [h]; exact RefreshWeaker.deact _ _ _ hl, he.2.1⟩)
  | revokeAccess rid =>
    have ha := revokeAccessS_effect ss.store rid
    simp only [SState.exec]
    exact ⟨by rw [ha.1]; exact RefreshWeaker.refl _, ha.2.1⟩
  | getClient _ => apply same <;> (simp only [SState.exec]; split <;> rfl)
  | getCode _ => apply same <;> (simp only [SState.exec]; (repeat' split) <;> rfl)
  | invalidateCode _ => apply same <;> (simp only [SState.exec]; (repeat' split) <;> rfl)
  | createCode _ => apply same <;> simp [SState.exec]
  | createAccess _ => apply same <;> simp [SState.exec]
  | getAccess _ => apply same <;> (simp only [SState.exec]; split <;> rfl)
  | deleteAccess _ => apply same <;> (simp only [SState.exec]; split <;> rfl)
  | getRefresh _ => apply same <;> (simp only [SState.exec]; (repeat' split) <;> rfl)
  | createPKCE _ _ => apply same <;> simp [SState.exec]
  | getPKCE _ => apply same <;> (simp only [SState.exec]; split <;> rfl)
  | deletePKCE _ => apply same <;> (simp only [SState.exec]; split <;> rfl)
  | createOIDC _ _ => apply same <;> simp [SState.exec]
  | getOIDC _ => apply same <;> (simp only [SState.exec]; split <;> rfl)
  | deleteOIDC _ => apply same <;> (simp only [SState.exec]; split <;> rfl)
  | beginTx => apply same <;> simp [SState.exec]
  | commitTx => apply same <;> simp [SState.exec]
  | rollbackTx => apply same <;> simp [SState.exec]
  | newId => apply same <;> simp [SState.exec]
  | createPAR _ => apply same <;> simp [SState.exec]
  | getPAR _ => apply same <;> (simp only [SState.exec]; split <;> rfl)
  | deletePAR _ => apply same <;> (simp only [SState.exec]; split <;> rfl)
  | createDevice _ => apply same <;> simp [SState.exec]
  | getDevice _ => apply same <;> (simp only [SState.exec]; (repeat' split) <;> rfl)
  | invalidateDevice _ => apply same <;> (simp only [SState.exec]; (repeat' split) <;> rfl)
  | authenticateUser _ _ => apply same <;> (simp only [SState.exec]; split <;> rfl)

theorem exec_GInv_other (ss : SState) (c : Call) (h : GInv ss)
    (hc1 : ∀ r, c ≠ .createCode r) (hc2 : ∀ a r, c ≠ .createRefresh a r) : GInv (ss.exec c).1 := by
  apply GInv.weaken ss _ h
  · rcases exec_codes_weaker_or_create ss c with ⟨r, hc⟩ | hw
    · exact absurd hc (hc1 r)
    · exact hw
  · exact (exec_refresh_weaker ss c hc2).1
  · exact (exec_refresh_weaker ss c hc2).2
  · exact exec_next_mono ss c

/-- **Every storage call preserves the grant invariant under its guard.** -/
theorem exec_GInv (ss : SState) (c : Call) (h : GInv ss) (g : Guard ss c) : GInv (ss.exec c).1 := by
  cases c with
  | createCode r =>
    obtain ⟨hc, hr, hi, hn⟩ := exec_createCode_effect ss r
    obtain ⟨gid, grt, gcd⟩ := g
    constructor
    · intro sig rec hl
      rw [hc, alookup_aset] at hl; rw [hn]
      by_cases hs : sig = ss.next
      · subst hs; simp only [if_true] at hl; cases hl; exact ⟨by omega, by simpa using Nat.lt_succ_of_lt gid⟩
      · simp only [hs, if_false] at hl; have := h.codesBelow sig rec hl; omega
    · intro sig rec hl
      rw [hr] at hl; rw [hn]; have := h.refreshBelow sig rec hl; omega
    · intro sig rec hl ha
      rw [hr] at hl; rw [hi]; exact h.idx sig rec hl ha
    · intro cs crec sig rec hcl hca hrl
      rw [hc, alookup_aset] at hcl; rw [hr] at hrl
      by_cases hs : cs = ss.next
      · subst hs; simp only [if_true] at hcl; cases hcl; exact grt sig rec hrl
      · simp only [hs, if_false] at hcl; exact h.codeRT cs crec sig rec hcl hca hrl
    · intro s1 s2 c1 c2 h1 h2 heq
      rw [hc, alookup_aset] at h1 h2
      by_cases hs1 : s1 = ss.next <;> by_cases hs2 : s2 = ss.next
      · rw [hs1, hs2]
      · simp only [hs1, if_true] at h1; simp only [hs2, if_false] at h2; cases h1
        exact absurd heq.symm (gcd s2 c2 h2)
      · simp only [hs1, if_false] at h1; simp only [hs2, if_true] at h2; cases h2
        exact absurd heq (gcd s1 c1 h1)
      · simp only [hs1, if_false] at h1; simp only [hs2, if_false] at h2
        exact h.codeIds s1 s2 c1 c2 h1 h2 heq
  | createRefresh a r =>
    obtain ⟨hc, hr, hi, hn⟩ := exec_createRefresh_effect ss a r
    obtain ⟨gid, grt, gcd⟩ := g
    constructor
    · intro sig rec hl
      rw [hc] at hl; rw [hn]; have := h.codesBelow sig rec hl; omega
    · intro sig rec hl
      rw [hr, alookup_aset] at hl; rw [hn]
      by_cases hs : sig = ss.next
      · subst hs; simp only [if_true] at hl; cases hl; exact ⟨by omega, by simpa using Nat.lt_succ_of_lt gid⟩
      · simp only [hs, if_false] at hl; have := h.refreshBelow sig rec hl; omega
    · intro sig rec hl ha
      rw [hr, alookup_aset] at hl; rw [hi, alookup_aset]
      by_cases hs : sig = ss.next
      · subst hs; simp only [if_true] at hl; cases hl; simp
      · simp only [hs, if_false] at hl
        have hne : rec.req.id ≠ r.id := grt sig rec hl ha
        simp only [hne, if_false]; exact h.idx sig rec hl ha
    · intro cs crec sig rec hcl hca hrl
      rw [hc] at hcl; rw [hr, alookup_aset] at hrl
      by_cases hs : sig = ss.next
      · subst hs; simp only [if_true] at hrl; cases hrl
        exact fun heq => gcd cs crec hcl hca heq.symm
      · simp only [hs, if_false] at hrl; exact h.codeRT cs crec sig rec hcl hca hrl
    · intro s1 s2 c1 c2 h1 h2 heq
      rw [hc] at h1 h2; exact h.codeIds s1 s2 c1 c2 h1 h2 heq
  | getClient _ => exact exec_GInv_other ss _ h (by intro r h; cases h) (by intro a r h; cases h)
  | getCode _ => exact exec_GInv_other ss _ h (by intro r h; cases h) (by intro a r h; cases h)
  | invalidateCode _ => exact exec_GInv_other ss _ h (by intro r h; cases h) (by intro a r h; cases h)
  | createAccess _ => exact exec_GInv_other ss _ h (by intro r h; cases h) (by intro a r h; cases h)
  | getAccess _ => exact exec_GInv_other ss _ h (by intro r h; cases h) (by intro a r h; cases h)
  | deleteAccess _ => exact exec_GInv_other ss _ h (by intro r h; cases h) (by intro a r h; cases h)
  | revokeAccess _ => exact exec_GInv_other ss _ h (by intro r h; cases h) (by intro a r h; cases h)
  | getRefresh _ => exact exec_GInv_other ss _ h (by intro r h; cases h) (by intro a r h; cases h)
  | deleteRefresh _ => exact exec_GInv_other ss _ h (by intro r h; cases h) (by intro a r h; cases h)
  | revokeRefresh _ => exact exec_GInv_other ss _ h (by intro r h; cases h) (by intro a r h; cases h)
  | rotateRefresh _ _ => exact exec_GInv_other ss _ h (by intro r h; cases h) (by intro a r h; cases h)
  | createPKCE _ _ => exact exec_GInv_other ss _ h (by intro r h; cases h) (by intro a r h; cases h)
  | getPKCE _ => exact exec_GInv_other ss _ h (by intro r h; cases h) (by intro a r h; cases h)
  | deletePKCE _ => exact exec_GInv_other ss _ h (by intro r h; cases h) (by intro a r h; cases h)
  | createOIDC _ _ => exact exec_GInv_other ss _ h (by intro r h; cases h) (by intro a r h; cases h)
  | getOIDC _ => exact exec_GInv_other ss _ h (by intro r h; cases h) (by intro a r h; cases h)
  | deleteOIDC _ => exact exec_GInv_other ss _ h (by intro r h; cases h) (by intro a r h; cases h)
  | beginTx => exact exec_GInv_other ss _ h (by intro r h; cases h) (by intro a r h; cases h)
  | commitTx => exact exec_GInv_other ss _ h (by intro r h; cases h) (by intro a r h; cases h)
  | rollbackTx => exact exec_GInv_other ss _ h (by intro r h; cases h) (by intro a r h; cases h)
  | newId => exact exec_GInv_other ss _ h (by intro r h; cases h) (by intro a r h; cases h)
  | createPAR _ => exact exec_GInv_other ss _ h (by intro r h; cases h) (by intro a r h; cases h)
  | getPAR _ => exact exec_GInv_other ss _ h (by intro r h; cases h) (by intro a r h; cases h)
  | deletePAR _ => exact exec_GInv_other ss _ h (by intro r h; cases h) (by intro a r h; cases h)
  | createDevice _ => exact exec_GInv_other ss _ h (by intro r h; cases h) (by intro a r h; cases h)
  | getDevice _ => exact exec_GInv_other ss _ h (by intro r h; cases h) (by intro a r h; cases h)
  | invalidateDevice _ => exact exec_GInv_other ss _ h (by intro r h; cases h) (by intro a r h; cases h)
  | authenticateUser _ _ => exact exec_GInv_other ss _ h (by intro r h; cases h) (by intro a r h; cases h)

end Fosite.Model

/- The revocation endpoint refines a pure function of the state. -/
import Fosite.Proofs.Introspect
namespace Fosite.Model

/-- client authentication as a function of the client table -/
def authVerdict (clients : List Client) (clientId : String) (credOk : Bool) : Except Err Client :=
  match clients.find? (fun c => c.id == clientId) with
  | none => .error .invalid_client
  | some c => if c.isPublic || credOk then .ok c else .error .invalid_client

def lookupRefresh (st : Store) (k : Option Nat) : Res :=
  match k.bind (alookup st.refresh) with
  | none => .notFound
  | some rec => if rec.active then .req rec.req else .inactive rec.req
def lookupAccess (st : Store) (k : Option Nat) : Res :=
  match k.bind (alookup st.access) with
  | none => .notFound
  | some r => .req r

/-- token discovery in hint order -/
def revokeDiscover (q : RevokeReq) (st : Store) : Except (Option Err × Option Err) Req :=
  let first := if q.hint == .access then lookupAccess st q.token.sig else lookupRefresh st q.token.sig
  let second := if q.hint == .access then lookupRefresh st q.token.sig else lookupAccess st q.token.sig
  match first with
  | .req ar => .ok ar
  | _ => match second with
    | .req ar => .ok ar
    | _ => .error (first.errKind, second.errKind)

/-- `NewRevocationRequest` as a function of the state -/
def revokePure (q : RevokeReq) (ss : SState) : SState × Out :=
  match authVerdict ss.clients q.clientId q.credOk with
  | .error e => (ss, .err e)
  | .ok client =>
    match revokeDiscover q ss.store with
    | .error (e1, e2) => (ss, if benignRevocationErr e1 && benignRevocationErr e2 then .ok else .err .temporarily_unavailable)
    | .ok ar =>
      if ar.client.id != client.id then (ss, .err .unauthorized_client)
      else
        let (s1, r1) := revokeRefreshS ss.store ar.id
        let (s2, r2) := revokeAccessS s1 ar.id
        ({ ss with store := s2 },
          if benignRevocationErr r1.errKind && benignRevocationErr r2.errKind then .ok else .err .temporarily_unavailable)

theorem exec_getClient_snd (ss : SState) (id : String) :
    (ss.exec (.getClient id)).2 = match ss.clients.find? (fun c => c.id == id) with | some c => .client c | none => .notFound := by
  simp only [SState.exec]; cases ss.clients.find? (fun c => c.id == id) <;> rfl

theorem run_authenticate (rc : RunCfg) (hp : Plain rc) (id : String) (ok : Bool) (rs : RState) :
    (run rc rs (authenticate id ok).toProg).1.ss = rs.ss ∧
    (run rc rs (authenticate id ok).toProg).2 = authVerdict rs.ss.clients id ok := by
  obtain ⟨hss, hres⟩ := step_read rc hp rs (.getClient id) rfl (exec_getClient_fst _ _)
  rw [exec_getClient_snd] at hres
  apply (wp_run rc (authenticate id ok).toProg (fun rs' r => rs'.ss = rs.ss ∧ r = authVerdict rs.ss.clients id ok) rs).mp
  rw [wp_iff_wpH]
  unfold authenticate authVerdict
  simp only [wpH_bind, wpH_expectClient, wpH_guard, wpH_pure]
  cases hf : rs.ss.clients.find? (fun c => c.id == id) with
  | none =>
    rw [hf] at hres
    exact ⟨fun x hx => (by rw [hres] at hx; cases hx), fun _ => ⟨hss, rfl⟩⟩
  | some c =>
    rw [hf] at hres
    refine ⟨fun x hx => ?_, fun hne => absurd hres (hne c)⟩
    rw [hres] at hx; cases hx
    cases h1 : c.isPublic <;> cases h2 : ok <;> simp [hss, h1, h2]

end Fosite.Model

namespace Fosite.Model

theorem run_HPbind {α β} (rc) (x : HP α) (f : α → HP β) (rs : RState) :
    run rc rs (x >>= f).toProg =
      match (run rc rs x.toProg).2 with
      | .ok a => run rc (run rc rs x.toProg).1 (f a).toProg
      | .error e => ((run rc rs x.toProg).1, .error e) := by
  show run rc rs (HP.bind x f).toProg = _
  unfold HP.bind HP.mk
  show run rc rs (Prog.bind x.toProg _) = _
  rw [run_bind]
  cases (run rc rs x.toProg).2 <;> rfl

/-- what the caller sees -/
def closeOut : Except Err Out → Out
  | .ok o => o
  | .error e => .err e

theorem closeOut_ite (c : Prop) [Decidable c] (a b : Except Err Out) :
    closeOut (if c then a else b) = if c then closeOut a else closeOut b := by
  split <;> rfl

theorem run_HPrun (rc) (x : HP Out) (rs : RState) :
    run rc rs x.run = ((run rc rs x.toProg).1, closeOut (run rc rs x.toProg).2) := by
  unfold HP.run
  rw [run_bind]
  cases (run rc rs x.toProg).2 <;> rfl

theorem run_callH (rc) (c : Call) (rs : RState) : run rc rs (callH c).toProg = ((rs.step rc c).1, .ok (rs.step rc c).2) := rfl
theorem run_HPok {α} (rc) (a : α) (rs : RState) : run rc rs (HP.ok a).toProg = (rs, .ok a) := rfl
theorem run_HPpure {α} (rc) (a : α) (rs : RState) : run rc rs (pure a : HP α).toProg = (rs, .ok a) := rfl
theorem run_HPfail {α} (rc) (e : Err) (rs : RState) : run rc rs (HP.fail e : HP α).toProg = (rs, .error e) := rfl
theorem run_HPguard (rc) (c : Bool) (e : Err) (rs : RState) :
    run rc rs (HP.guard c e).toProg = (rs, if c then .ok () else .error e) := by
  unfold HP.guard; cases c <;> rfl

theorem step_write (rc : RunCfg) (hp : Plain rc) (rs : RState) (c : Call) (hc : c.isTx = false) :
    (rs.step rc c).1.ss = (rs.ss.exec c).1 ∧ (rs.step rc c).2 = (rs.ss.exec c).2 := by
  have h := step_eq_exec rc rs c hc _ rfl (fun e => step_no_fail rc hp.1 rs c e)
  exact ⟨h.1, h.2.symm⟩

theorem run_revocationError (rc) (e1 e2 : Option Err) (rs : RState) :
    run rc rs (revocationError e1 e2).toProg =
      (rs, if benignRevocationErr e1 && benignRevocationErr e2 then .ok Out.ok else .error .temporarily_unavailable) := by
  unfold revocationError; split <;> rfl

theorem run_revokeFound (rc : RunCfg) (hp : Plain rc) (client : Client) (ar : Req) (rs : RState) :
    (run rc rs (revokeH.revokeFound client ar).toProg).1.ss =
      (if ar.client.id != client.id then rs.ss
       else { rs.ss with store := (revokeAccessS (revokeRefreshS rs.ss.store ar.id).1 ar.id).1 }) ∧
    (run rc rs (revokeH.revokeFound client ar).toProg).2 =
      (if ar.client.id != client.id then .error .unauthorized_client
       else if benignRevocationErr (revokeRefreshS rs.ss.store ar.id).2.errKind &&
               benignRevocationErr (revokeAccessS (revokeRefreshS rs.ss.store ar.id).1 ar.id).2.errKind
            then .ok Out.ok else .error .temporarily_unavailable) := by
  unfold revokeH.revokeFound
  rw [run_HPbind, run_HPguard]
  by_cases hc : (ar.client.id == client.id) = true
  · have hne : (ar.client.id != client.id) = false := by simp [bne, hc]
    simp only [hc, if_true, hne, Bool.false_eq_true, if_false]
    rw [run_HPbind, run_callH]
    simp only
    rw [run_HPbind, run_callH]
    simp only
    rw [run_revocationError]
    obtain ⟨w1s, w1r⟩ := step_write rc hp rs (.revokeRefresh ar.id) rfl
    obtain ⟨w2s, w2r⟩ := step_write rc hp (rs.step rc (.revokeRefresh ar.id)).1 (.revokeAccess ar.id) rfl
    rw [w1s] at w2s w2r
    simp only
    rw [w2s, w2r, w1r]
    simp only [SState.exec]
    exact ⟨trivial, rfl⟩
  · have hne : (ar.client.id != client.id) = true := by simp [bne, hc]
    simp only [hc, Bool.false_eq_true, if_false, hne, if_true]
    exact ⟨trivial, trivial⟩

theorem exec_getRefresh_snd' (ss : SState) (k : Option Nat) : (ss.exec (.getRefresh k)).2 = lookupRefresh ss.store k :=
  exec_getRefresh_snd ss k
theorem exec_getAccess_snd' (ss : SState) (k : Option Nat) : (ss.exec (.getAccess k)).2 = lookupAccess ss.store k :=
  exec_getAccess_snd ss k

theorem revoke_lookup (rc : RunCfg) (hp : Plain rc) (rs : RState) (useAccess : Bool) (k : Option Nat) :
    let c : Call := if useAccess then .getAccess k else .getRefresh k
    (rs.step rc c).1.ss = rs.ss ∧
    (rs.step rc c).2 = (if useAccess then lookupAccess rs.ss.store k else lookupRefresh rs.ss.store k) := by
  cases useAccess
  · simp only [Bool.false_eq_true, if_false]
    obtain ⟨h1, h2⟩ := step_read rc hp rs (.getRefresh k) rfl (exec_getRefresh_fst _ _)
    exact ⟨h1, by rw [h2, exec_getRefresh_snd']⟩
  · simp only [if_true]
    obtain ⟨h1, h2⟩ := step_read rc hp rs (.getAccess k) rfl (exec_getAccess_fst _ _)
    exact ⟨h1, by rw [h2, exec_getAccess_snd']⟩

end Fosite.Model

namespace Fosite.Model

theorem revokeFirst_eq (q : RevokeReq) : revokeFirst q = (if (q.hint == Hint.access) then Call.getAccess q.token.sig else Call.getRefresh q.token.sig) := rfl
theorem revokeSecond_eq (q : RevokeReq) : revokeSecond q = (if (!(q.hint == Hint.access)) then Call.getAccess q.token.sig else Call.getRefresh q.token.sig) := by
  unfold revokeSecond; cases (q.hint == Hint.access) <;> rfl

/-- **The revocation endpoint refines `revokePure`.** -/
theorem run_revokeProg (rc : RunCfg) (hp : Plain rc) (q : RevokeReq) (rs : RState) :
    (run rc rs (revokeProg q)).1.ss = (revokePure q rs.ss).1 ∧
    (run rc rs (revokeProg q)).2 = (revokePure q rs.ss).2 := by
  unfold revokeProg
  rw [run_HPrun]
  unfold revokeH revokePure
  rw [run_HPbind]
  obtain ⟨ha1, ha2⟩ := run_authenticate rc hp q.clientId q.credOk rs
  rw [ha2]
  cases hv : authVerdict rs.ss.clients q.clientId q.credOk with
  | error e => exact ⟨ha1, rfl⟩
  | ok client =>
    try simp only
    rw [run_HPbind, run_callH]
    try simp only
    obtain ⟨l1s, l1r⟩ := revoke_lookup rc hp (run rc rs (authenticate q.clientId q.credOk).toProg).1 (q.hint == Hint.access) q.token.sig
    try simp only at l1s l1r
    rw [← revokeFirst_eq] at l1s l1r
    rw [ha1] at l1s l1r
    unfold revokeDiscover
    try simp only
    rw [l1r]
    cases hf : (if (q.hint == Hint.access) = true then lookupAccess rs.ss.store q.token.sig else lookupRefresh rs.ss.store q.token.sig) with
    | req ar =>
      try simp only
      obtain ⟨f1, f2⟩ := run_revokeFound rc hp client ar (RState.step rc (run rc rs (authenticate q.clientId q.credOk).toProg).1 (revokeFirst q)).1
      rw [f2, f1, l1s]
      by_cases hc : (ar.client.id != client.id) = true
      · simp [hc, closeOut]
      · simp only [hc, Bool.false_eq_true, if_false]
        cases (benignRevocationErr (revokeRefreshS rs.ss.store ar.id).snd.errKind &&
            benignRevocationErr (revokeAccessS (revokeRefreshS rs.ss.store ar.id).fst ar.id).snd.errKind) <;> simp [closeOut]
    | ok | notFound | inactive _ | client _ | nat _ | fail _ | par _ | dev _ | usedDev _ =>
      all_goals (
        try simp only
        rw [run_HPbind, run_callH]
        try simp only
        obtain ⟨l2s, l2r⟩ := revoke_lookup rc hp (RState.step rc (run rc rs (authenticate q.clientId q.credOk).toProg).1 (revokeFirst q)).1
          (!(q.hint == Hint.access)) q.token.sig
        try simp only at l2s l2r
        rw [← revokeSecond_eq] at l2s l2r
        rw [l1s] at l2s l2r
        rw [l2r]
        have hsec : (if (!(q.hint == Hint.access)) = true then lookupAccess rs.ss.store q.token.sig else lookupRefresh rs.ss.store q.token.sig)
            = (if (q.hint == Hint.access) = true then lookupRefresh rs.ss.store q.token.sig else lookupAccess rs.ss.store q.token.sig) := by
          cases (q.hint == Hint.access) <;> rfl
        rw [hsec]
        cases hs : (if (q.hint == Hint.access) = true then lookupRefresh rs.ss.store q.token.sig else lookupAccess rs.ss.store q.token.sig) with
        | req ar =>
          try simp only
          obtain ⟨f1, f2⟩ := run_revokeFound rc hp client ar
            (RState.step rc (RState.step rc (run rc rs (authenticate q.clientId q.credOk).toProg).1 (revokeFirst q)).1 (revokeSecond q)).1
          rw [f2, f1, l2s]
          by_cases hc : (ar.client.id != client.id) = true
          · simp [hc, closeOut]
          · simp only [hc, Bool.false_eq_true, if_false]
            cases (benignRevocationErr (revokeRefreshS rs.ss.store ar.id).snd.errKind &&
                benignRevocationErr (revokeAccessS (revokeRefreshS rs.ss.store ar.id).fst ar.id).snd.errKind) <;> simp [closeOut]
        | ok | notFound | inactive _ | client _ | nat _ | fail _ | par _ | dev _ | usedDev _ =>
          all_goals (
            try simp only
            rw [run_revocationError]
            refine ⟨l2s, ?_⟩
            rw [closeOut_ite]; rfl))

end Fosite.Model

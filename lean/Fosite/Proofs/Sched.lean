/-
  C19, interleaving half — lemmas about the scheduler (`Model/Sched.lean`):

  1. every schedule is a sequential order: the final store is the fold of `SState.exec` over the
     trace, every recorded answer is the store's answer at that point, and every thread's sub-trace
     is a path of its own program (`Reach`);
  2. store-level facts along a trace: the mint counter, `Fresh`, what keeps / removes an
     access-token or refresh-token record;
  3. a calculus (`ownK`, in the style of `txK`: it quantifies over EVERY answer of every call, since
     under interleaving a thread sees arbitrary answers) that tracks, per thread, which tokens the
     thread created and has not itself removed since; every endpoint program hands out only such
     tokens (`own_op`).
-/
import Fosite.Model.Sched
import Fosite.Proofs.DevicePar
namespace Fosite.Model

/-! ## 1. schedules are sequential orders -/

@[simp] theorem Thr.prog_ofProg (p : Prog Out) : (Thr.ofProg p).prog = p := by
  cases p <;> rfl

theorem Thr.out_eq_some (t : Thr) (o : Out) : t.out = some o ↔ t.prog = .ret o := by
  cases t with
  | done o' => simp [Thr.out, Thr.prog]
  | running p => cases p <;> simp [Thr.out, Thr.prog]

theorem execAll_nil (ss : SState) : execAll ss [] = ss := rfl
theorem execAll_cons (ss : SState) (c : Call) (cs : List Call) : execAll ss (c :: cs) = execAll (ss.exec c).1 cs := rfl
theorem execAll_append (ss : SState) (a b : List Call) : execAll ss (a ++ b) = execAll (execAll ss a) b := by
  simp [execAll, List.foldl_append]

theorem traceCalls_append (a b : List (Nat × Call × Res)) : traceCalls (a ++ b) = traceCalls a ++ traceCalls b := by
  simp [traceCalls]

theorem genuine_append (ss : SState) (a b : List (Nat × Call × Res)) :
    Genuine ss (a ++ b) ↔ Genuine ss a ∧ Genuine (execAll ss (traceCalls a)) b := by
  induction a generalizing ss with
  | nil => simp [Genuine, traceCalls, execAll]
  | cons e a ih =>
    obtain ⟨i, c, r⟩ := e
    simp only [List.cons_append, Genuine, ih, traceCalls, List.map_cons, execAll_cons, and_assoc]

theorem subTrace_append (i : Nat) (a b : List (Nat × Call × Res)) : subTrace i (a ++ b) = subTrace i a ++ subTrace i b := by
  simp [subTrace]

theorem subTrace_single (i j : Nat) (c : Call) (r : Res) :
    subTrace i [(j, c, r)] = if j = i then [(c, r)] else [] := by
  by_cases h : j = i <;> simp [subTrace, h]

theorem follows_snoc {α} (p : Prog α) (l : List (Call × Res)) (c : Call) (k : Res → Prog α) (r : Res)
    (h : Prog.follows p l (.call c k)) : Prog.follows p (l ++ [(c, r)]) (k r) := by
  generalize hq : Prog.call c k = q at h
  induction h with
  | nil p => subst hq; exact .cons c k r [] _ (.nil _)
  | cons c' k' r' l p' _ ih => exact .cons c' k' r' _ _ (ih hq)

theorem follows_trans {α} (p q u : Prog α) (l1 l2 : List (Call × Res))
    (h1 : Prog.follows p l1 q) (h2 : Prog.follows q l2 u) : Prog.follows p (l1 ++ l2) u := by
  induction h1 with
  | nil p => exact h2
  | cons c k r l p' _ ih => exact .cons c k r _ _ (ih h2)

/-- a path determines where it ends: the answers replayed through the continuations -/
theorem follows_advance {α} (p q : Prog α) (l : List (Call × Res)) (h : Prog.follows p l q) :
    q = Prog.advance p (l.map (fun e => e.2)) := by
  induction h with
  | nil p => cases p <;> rfl
  | cons c k r l p' _ ih => exact ih

/-- what a run from `s0` has established: `tr` are the steps taken since `s0` -/
structure Reach (s0 s : Sys) (tr : List (Nat × Call × Res)) : Prop where
  trace : s.trace = s0.trace ++ tr
  ss : s.ss = execAll s0.ss (traceCalls tr)
  genuine : Genuine s0.ss tr
  len : s.thr.length = s0.thr.length
  thr : ∀ i t0, s0.thr[i]? = some t0 → ∃ t, s.thr[i]? = some t ∧ Prog.follows t0.prog (subTrace i tr) t.prog
  inRange : ∀ e ∈ tr, e.1 < s0.thr.length

theorem Reach.refl (s : Sys) : Reach s s [] where
  trace := by simp
  ss := rfl
  genuine := trivial
  len := rfl
  thr := fun i t0 h => ⟨t0, h, .nil _⟩
  inRange := by intro e he; cases he

/-- one scheduler step: nothing happens, or one more genuine step of one thread's program -/
theorem Reach.step {s0 s : Sys} {tr} (h : Reach s0 s tr) (i : Nat) :
    Reach s0 (s.step i) tr ∨ ∃ c r, Reach s0 (s.step i) (tr ++ [(i, c, r)]) := by
  unfold Sys.step
  cases hi : s.thr[i]? with
  | none => left; simpa using h
  | some t =>
    simp only
    cases hp : t.prog with
    | ret o => left; simpa using h
    | call c k =>
      right
      refine ⟨c, (s.ss.exec c).2, ?_⟩
      have hilt : i < s.thr.length := by
        rcases List.getElem?_eq_some_iff.mp hi with ⟨hlt, _⟩; exact hlt
      constructor
      · simp [h.trace, List.append_assoc]
      · simp only [traceCalls_append, execAll_append, ← h.ss]
        rfl
      · rw [genuine_append]
        refine ⟨h.genuine, ?_⟩
        simp only [Genuine, ← h.ss, and_true]
      · simp [h.len]
      · intro j t0 hj
        obtain ⟨tj, htj, hf⟩ := h.thr j t0 hj
        rw [subTrace_append, subTrace_single]
        by_cases hij : i = j
        · subst hij
          rw [hi] at htj; cases htj
          refine ⟨Thr.ofProg (k (s.ss.exec c).2), ?_, ?_⟩
          · simp [hilt]
          · simp only [if_true, Thr.prog_ofProg]
            rw [hp] at hf
            exact follows_snoc _ _ _ _ _ hf
        · refine ⟨tj, ?_, ?_⟩
          · simp [hij, htj]
          · simpa [hij] using hf
      · intro e he
        rcases List.mem_append.mp he with he | he
        · exact h.inRange e he
        · simp only [List.mem_singleton] at he
          subst he
          rw [← h.len]; exact hilt

theorem reach_runSched (s0 : Sys) (sched : List Nat) : ∃ tr, Reach s0 (runSched s0 sched) tr := by
  suffices H : ∀ (s : Sys) tr, Reach s0 s tr → ∃ tr', Reach s0 (runSched s sched) tr' from H s0 [] (Reach.refl s0)
  induction sched with
  | nil => intro s tr h; exact ⟨tr, h⟩
  | cons i sched ih =>
    intro s tr h
    rcases h.step i with h' | ⟨c, r, h'⟩
    · exact ih _ _ h'
    · exact ih _ _ h'

/-- the steps a run adds to the trace -/
def newTrace (s0 : Sys) (sched : List Nat) : List (Nat × Call × Res) :=
  (runSched s0 sched).trace.drop s0.trace.length

theorem reach_newTrace (s0 : Sys) (sched : List Nat) : Reach s0 (runSched s0 sched) (newTrace s0 sched) := by
  obtain ⟨tr, h⟩ := reach_runSched s0 sched
  have : newTrace s0 sched = tr := by simp [newTrace, h.trace]
  rw [this]; exact h

theorem newTrace_init (m : MState) (ops : List Op) (sched : List Nat) :
    newTrace (Sys.init m ops) sched = (runSched (Sys.init m ops) sched).trace := by
  simp [newTrace, Sys.init]

/-! ### the storage-call view is a special case -/

theorem runSched_append (s : Sys) (a b : List Nat) : runSched s (a ++ b) = runSched (runSched s a) b := by
  simp [runSched, List.foldl_append]

theorem stepStorage_is_runSched (s : Sys) (i : Nat) : ∃ sched, s.stepStorage i = runSched s sched := by
  unfold Sys.stepStorage
  cases s.thr[i]? with
  | none => exact ⟨[], rfl⟩
  | some t => exact ⟨_, rfl⟩

/-- every run at storage-call granularity is a run of the fine-grained scheduler -/
theorem runStorage_is_runSched (s : Sys) (sched : List Nat) : ∃ sched', runStorage s sched = runSched s sched' := by
  induction sched generalizing s with
  | nil => exact ⟨[], rfl⟩
  | cons i sched ih =>
    obtain ⟨a, ha⟩ := stepStorage_is_runSched s i
    obtain ⟨b, hb⟩ := ih (s.stepStorage i)
    refine ⟨a ++ b, ?_⟩
    rw [runSched_append, ← ha, ← hb]
    rfl

/-! ## 2. store-level facts along a sequential order -/

theorem execAll_preserves (P : SState → Prop) (hP : ∀ ss c, P ss → P (ss.exec c).1) (ss : SState) (cs : List Call)
    (h : P ss) : P (execAll ss cs) := by
  induction cs generalizing ss with
  | nil => exact h
  | cons c cs ih => exact ih _ (hP _ _ h)

theorem execAll_next_mono (ss : SState) (cs : List Call) : ss.next ≤ (execAll ss cs).next := by
  induction cs generalizing ss with
  | nil => exact Nat.le_refl _
  | cons c cs ih => exact Nat.le_trans (exec_next_mono ss c) (ih _)

/-- a minting call answers the mint counter and advances it past everything it minted -/
theorem exec_mints (ss : SState) (c : Call) (h : c.mints = true) :
    (ss.exec c).2 = .nat ss.next ∧ (ss.exec c).1.next = ss.next + c.mintWidth := by
  cases c <;> simp [Call.mints] at h <;> simp [SState.exec, Call.mintWidth]

/-! ### the access table -/

theorem exec_access_cases (ss : SState) (c : Call) :
    (ss.exec c).1.store.access = ss.store.access ∨
    (∃ r, c = .createAccess r ∧ (ss.exec c).1.store.access = aset ss.store.access ss.next r) ∨
    (∃ sig, c = .deleteAccess (some sig) ∧ (ss.exec c).1.store.access = adel ss.store.access sig) ∨
    (∃ rid, (c = .revokeAccess rid ∨ ∃ k, c = .rotateRefresh rid k) ∧
      (ss.exec c).1.store.access = ss.store.access.filter (fun p => p.2.id != rid)) := by
  cases c with
  | createAccess r => right; left; exact ⟨r, rfl, rfl⟩
  | deleteAccess k =>
    cases k with
    | none => left; rfl
    | some sig => right; right; left; exact ⟨sig, rfl, rfl⟩
  | revokeAccess rid => right; right; right; exact ⟨rid, Or.inl rfl, rfl⟩
  | rotateRefresh rid k =>
    have he := revokeRefreshS_effect ss.store rid
    simp only [SState.exec]
    cases hres : (revokeRefreshS ss.store rid).2 with
    | ok =>
      right; right; right
      refine ⟨rid, Or.inr ⟨k, rfl⟩, ?_⟩
      simp only [revokeAccessS, he.2.2.2.1]
    | _ => left; simp only [he.2.2.2.1]
  | revokeRefresh rid =>
    left
    have he := revokeRefreshS_effect ss.store rid
    simp only [SState.exec, he.2.2.2.1]
  | _ => left; simp only [SState.exec] <;> (repeat' split) <;> rfl

theorem alookup_filter_keep {β} (l : List (Nat × β)) (f : Nat × β → Bool) (k : Nat) (v : β)
    (h : alookup l k = some v) (hf : f (k, v) = true) : alookup (l.filter f) k = some v := by
  induction l with
  | nil => simp [alookup] at h
  | cons p t ih =>
    obtain ⟨k', v'⟩ := p
    simp only [alookup] at h
    by_cases hk : k' = k
    · subst hk
      simp only [if_true, Option.some.injEq] at h
      subst h
      simp [hf, alookup]
    · simp only [hk, if_false] at h
      simp only [List.filter_cons]
      split
      · simp only [alookup, hk, if_false]; exact ih h
      · exact ih h

theorem alookup_filter_some {β} (l : List (Nat × β)) (f : Nat × β → Bool) (k : Nat) (v : β)
    (h : alookup (l.filter f) k = some v) : ∃ v', alookup l k = some v' := by
  induction l with
  | nil => simp [alookup] at h
  | cons p t ih =>
    obtain ⟨k', v'⟩ := p
    by_cases hk : k' = k
    · exact ⟨v', by simp [alookup, hk]⟩
    · simp only [List.filter_cons] at h
      simp only [alookup, hk, if_false]
      split at h
      · simp only [alookup, hk, if_false] at h; exact ih h
      · exact ih h

/-- a stored access token stays as it is under every call that is not a removing call for it -/
theorem exec_access_keep (ss : SState) (c : Call) (sig : Nat) (r : Req)
    (hl : alookup ss.store.access sig = some r) (hlt : sig < ss.next)
    (hc : c.removesAccess sig r.id = false) : alookup (ss.exec c).1.store.access sig = some r := by
  rcases exec_access_cases ss c with he | ⟨r', _, he⟩ | ⟨s2, hcd, he⟩ | ⟨rid, hcr, he⟩
  · rw [he]; exact hl
  · rw [he, alookup_aset]
    have : sig ≠ ss.next := Nat.ne_of_lt hlt
    simp [this, hl]
  · subst hcd
    have hne : sig ≠ s2 := by
      intro h; subst h; simp [Call.removesAccess] at hc
    rw [he, alookup_adel]; simp [hne, hl]
  · have hne : r.id ≠ rid := by
      intro h
      rcases hcr with hcr | ⟨k, hcr⟩ <;> (subst hcr; simp [Call.removesAccess, h] at hc)
    rw [he]
    exact alookup_filter_keep _ _ _ _ hl (by simpa using hne)

/-- along a sequential order, a stored access token is still there at the end unless one of the
    steps is a removing call for it -/
theorem access_kept_or_removed (ss : SState) (tr : List (Nat × Call × Res)) (sig : Nat) (r : Req)
    (hl : alookup ss.store.access sig = some r) (hlt : sig < ss.next) :
    alookup (execAll ss (traceCalls tr)).store.access sig = some r ∨
      ∃ e ∈ tr, e.2.1.removesAccess sig r.id = true := by
  induction tr generalizing ss with
  | nil => left; exact hl
  | cons e tr ih =>
    obtain ⟨i, c, res⟩ := e
    by_cases hc : c.removesAccess sig r.id = true
    · right; exact ⟨(i, c, res), List.mem_cons_self, hc⟩
    · have hc' : c.removesAccess sig r.id = false := by simpa using hc
      rcases ih (ss.exec c).1 (exec_access_keep ss c sig r hl hlt hc') (Nat.lt_of_lt_of_le hlt (exec_next_mono ss c)) with h | ⟨e, he, h⟩
      · left; exact h
      · right; exact ⟨e, List.mem_cons_of_mem _ he, h⟩

/-- **the access token a `createAccess` step stored is present at the end, or a later step is a
    removing call for it** -/
theorem created_access_present_or_removed (ss0 : SState) (l1 l2 : List (Nat × Call × Res)) (i : Nat) (r : Req) (n : Nat)
    (hg : Genuine ss0 (l1 ++ (i, .createAccess r, .nat n) :: l2)) :
    alookup (execAll ss0 (traceCalls (l1 ++ (i, .createAccess r, .nat n) :: l2))).store.access n = some r ∨
      ∃ e ∈ l2, e.2.1.removesAccess n r.id = true := by
  rw [genuine_append] at hg
  obtain ⟨_, hres, _⟩ := hg
  rw [traceCalls_append, execAll_append]
  generalize execAll ss0 (traceCalls l1) = ss1 at hres ⊢
  have hn : n = ss1.next := by simp [SState.exec] at hres; exact hres.symm
  subst hn
  show alookup (execAll (ss1.exec (.createAccess r)).1 (traceCalls l2)).store.access ss1.next = some r ∨ _
  apply access_kept_or_removed
  · simp [SState.exec, alookup_aset_self]
  · simp [SState.exec]

/-! ### the refresh table -/

theorem exec_refresh_cases (ss : SState) (c : Call) :
    (ss.exec c).1.store.refresh = ss.store.refresh ∨
    (∃ a r, c = .createRefresh a r ∧
      (ss.exec c).1.store.refresh = aset ss.store.refresh ss.next { active := true, atSig := a, req := r }) ∨
    (∃ sig, c = .deleteRefresh (some sig) ∧ (ss.exec c).1.store.refresh = adel ss.store.refresh sig) ∨
    (∃ rid sig rec, (c = .revokeRefresh rid ∨ ∃ k, c = .rotateRefresh rid k) ∧
      alookup ss.store.rtIdx rid = some sig ∧ alookup ss.store.refresh sig = some rec ∧
      (ss.exec c).1.store.refresh = aset ss.store.refresh sig { rec with active := false }) := by
  cases c with
  | createRefresh a r => right; left; exact ⟨a, r, rfl, rfl⟩
  | deleteRefresh k =>
    cases k with
    | none => left; rfl
    | some sig => right; right; left; exact ⟨sig, rfl, rfl⟩
  | revokeRefresh rid =>
    have he := revokeRefreshS_effect ss.store rid
    simp only [SState.exec]
    rcases he.1 with h | ⟨sig, rec, hi, hl, h⟩
    · left; exact h
    · right; right; right; exact ⟨rid, sig, rec, Or.inl rfl, hi, hl, h⟩
  | rotateRefresh rid k =>
    have he := revokeRefreshS_effect ss.store rid
    have ha := revokeAccessS_effect (revokeRefreshS ss.store rid).1 rid
    simp only [SState.exec]
    cases hres : (revokeRefreshS ss.store rid).2 <;> simp only <;>
      (rcases he.1 with h | ⟨sig, rec, hi, hl, h⟩
       · left; first | (rw [ha.1]; exact h) | exact h
       · right; right; right
         refine ⟨rid, sig, rec, Or.inr ⟨k, rfl⟩, hi, hl, ?_⟩
         first | (rw [ha.1]; exact h) | exact h)
  | revokeAccess rid => left; rfl
  | _ => left; simp only [SState.exec] <;> (repeat' split) <;> rfl

theorem exec_rtIdx_cases (ss : SState) (c : Call) :
    (ss.exec c).1.store.rtIdx = ss.store.rtIdx ∨
    (∃ a r, c = .createRefresh a r ∧ (ss.exec c).1.store.rtIdx = aset ss.store.rtIdx r.id ss.next) := by
  rcases (exec_refresh_effect ss c).1 with ⟨_, hi, _⟩ | ⟨a, r, _, hi, _⟩ | ⟨_, _, _, _, hi, _⟩ | ⟨_, _, hi, _⟩
  · left; exact hi
  · cases c with
    | createRefresh a' r' =>
      right; exact ⟨a', r', rfl, by simp [SState.exec]⟩
    | _ => left; simp only [SState.exec, revokeAccessS] <;> (repeat' split) <;> first | rfl | (exact (revokeRefreshS_effect _ _).2.1)
  · left; exact hi
  · left; exact hi

/-- the request-id index points at `sig` only from request `rid` -/
def PtrOnly (ss : SState) (sig rid : Nat) : Prop := ∀ rid', alookup ss.store.rtIdx rid' = some sig → rid' = rid

theorem exec_PtrOnly (ss : SState) (c : Call) (sig rid : Nat) (hlt : sig < ss.next) (h : PtrOnly ss sig rid) :
    PtrOnly (ss.exec c).1 sig rid := by
  intro rid' hl
  rcases exec_rtIdx_cases ss c with he | ⟨a, r, _, he⟩
  · rw [he] at hl; exact h rid' hl
  · rw [he, alookup_aset] at hl
    by_cases hr : rid' = r.id
    · simp only [hr, if_true, Option.some.injEq] at hl; omega
    · simp only [hr, if_false] at hl; exact h rid' hl

/-- a stored refresh token stays as it is (in particular: active) under every call that is not a
    removing call for it -/
theorem exec_refresh_keep (ss : SState) (c : Call) (sig : Nat) (rec : RefreshRec)
    (hp : PtrOnly ss sig rec.req.id)
    (hl : alookup ss.store.refresh sig = some rec) (hlt : sig < ss.next)
    (hc : c.removesRefresh sig rec.req.id = false) : alookup (ss.exec c).1.store.refresh sig = some rec := by
  rcases exec_refresh_cases ss c with he | ⟨a, r', _, he⟩ | ⟨s2, hcd, he⟩ | ⟨rid, s2, rec2, hcr, hi, hl2, he⟩
  · rw [he]; exact hl
  · rw [he, alookup_aset]
    have : sig ≠ ss.next := Nat.ne_of_lt hlt
    simp [this, hl]
  · subst hcd
    have hne : sig ≠ s2 := by
      intro h; subst h; simp [Call.removesRefresh] at hc
    rw [he, alookup_adel]; simp [hne, hl]
  · have hne : sig ≠ s2 := by
      intro h; subst h
      have := hp rid hi
      rcases hcr with hcr | ⟨k, hcr⟩ <;> (subst hcr; simp [Call.removesRefresh, this] at hc)
    rw [he, alookup_aset]; simp [hne, hl]

theorem refresh_kept_or_removed (ss : SState) (tr : List (Nat × Call × Res)) (sig : Nat) (rec : RefreshRec)
    (hp : PtrOnly ss sig rec.req.id)
    (hl : alookup ss.store.refresh sig = some rec) (hlt : sig < ss.next) :
    alookup (execAll ss (traceCalls tr)).store.refresh sig = some rec ∨
      ∃ e ∈ tr, e.2.1.removesRefresh sig rec.req.id = true := by
  induction tr generalizing ss with
  | nil => left; exact hl
  | cons e tr ih =>
    obtain ⟨i, c, res⟩ := e
    by_cases hc : c.removesRefresh sig rec.req.id = true
    · right; exact ⟨(i, c, res), List.mem_cons_self, hc⟩
    · have hc' : c.removesRefresh sig rec.req.id = false := by simpa using hc
      rcases ih (ss.exec c).1 (exec_PtrOnly ss c sig _ hlt hp) (exec_refresh_keep ss c sig rec hp hl hlt hc')
          (Nat.lt_of_lt_of_le hlt (exec_next_mono ss c)) with h | ⟨e, he, h⟩
      · left; exact h
      · right; exact ⟨e, List.mem_cons_of_mem _ he, h⟩

/-! ### `Fresh` is an invariant of the store -/

theorem exec_atIdx_cases (ss : SState) (c : Call) :
    (ss.exec c).1.store.atIdx = ss.store.atIdx ∨
    (∃ r, c = .createAccess r ∧ (ss.exec c).1.store.atIdx = aset ss.store.atIdx r.id ss.next) := by
  cases c with
  | createAccess r => right; exact ⟨r, rfl, rfl⟩
  | rotateRefresh rid k =>
    left
    have he := revokeRefreshS_effect ss.store rid
    have ha := revokeAccessS_effect (revokeRefreshS ss.store rid).1 rid
    simp only [SState.exec]
    cases hres : (revokeRefreshS ss.store rid).2 <;> simp only <;> first | (rw [ha.2.2.2]; exact he.2.2.2.2) | exact he.2.2.2.2
  | revokeRefresh rid => left; exact (revokeRefreshS_effect ss.store rid).2.2.2.2
  | _ => left; simp only [SState.exec, revokeAccessS] <;> (repeat' split) <;> rfl

theorem exec_Fresh (ss : SState) (c : Call) (h : Fresh ss) : Fresh (ss.exec c).1 := by
  have hm := exec_next_mono ss c
  constructor
  · exact exec_CodesBelow ss c h.codes
  · intro sig r hl
    rcases exec_access_cases ss c with he | ⟨r', hc, he⟩ | ⟨s2, _, he⟩ | ⟨rid, _, he⟩
    · rw [he] at hl; exact Nat.lt_of_lt_of_le (h.access _ _ hl) hm
    · subst hc
      rw [he, alookup_aset] at hl
      have hn : (ss.exec (.createAccess r')).1.next = ss.next + 1 := by simp [SState.exec]
      rw [hn]
      by_cases hs : sig = ss.next
      · omega
      · simp only [hs, if_false] at hl; have := h.access _ _ hl; omega
    · rw [he, alookup_adel] at hl
      by_cases hs : sig = s2
      · simp [hs] at hl
      · simp only [hs, if_false] at hl; exact Nat.lt_of_lt_of_le (h.access _ _ hl) hm
    · rw [he] at hl
      obtain ⟨v', hv⟩ := alookup_filter_some _ _ _ _ hl
      exact Nat.lt_of_lt_of_le (h.access _ _ hv) hm
  · intro sig rec hl
    rcases exec_refresh_cases ss c with he | ⟨a, r', hc, he⟩ | ⟨s2, _, he⟩ | ⟨rid, s2, rec2, _, _, hl2, he⟩
    · rw [he] at hl; exact Nat.lt_of_lt_of_le (h.refresh _ _ hl) hm
    · subst hc
      rw [he, alookup_aset] at hl
      have hn : (ss.exec (.createRefresh a r')).1.next = ss.next + 1 := by simp [SState.exec]
      rw [hn]
      by_cases hs : sig = ss.next
      · omega
      · simp only [hs, if_false] at hl; have := h.refresh _ _ hl; omega
    · rw [he, alookup_adel] at hl
      by_cases hs : sig = s2
      · simp [hs] at hl
      · simp only [hs, if_false] at hl; exact Nat.lt_of_lt_of_le (h.refresh _ _ hl) hm
    · rw [he, alookup_aset] at hl
      by_cases hs : sig = s2
      · subst hs; exact Nat.lt_of_lt_of_le (h.refresh _ _ hl2) hm
      · simp only [hs, if_false] at hl; exact Nat.lt_of_lt_of_le (h.refresh _ _ hl) hm
  · exact exec_ParBelow ss c h.par
  · intro sig d hl
    rcases exec_device_cases ss c with he | ⟨r, hc, he⟩ | ⟨s2, _, he | ⟨d2, hl2, he⟩⟩
    · rw [he] at hl; have := h.device _ _ hl; omega
    · subst hc
      rw [he, alookup_aset] at hl
      have hn : (ss.exec (.createDevice r)).1.next = ss.next + 2 := by simp [SState.exec]
      rw [hn]
      by_cases hs : sig = ss.next
      · simp only [hs, if_true, Option.some.injEq] at hl; subst hl; simp; omega
      · simp only [hs, if_false] at hl; have := h.device _ _ hl; omega
    · rw [he, alookup_adel] at hl
      by_cases hs : sig = s2
      · simp [hs] at hl
      · simp only [hs, if_false] at hl; have := h.device _ _ hl; omega
    · rw [he, alookup_aset] at hl
      by_cases hs : sig = s2
      · subst hs
        simp only [if_true, Option.some.injEq] at hl; subst hl
        have := h.device _ _ hl2; exact ⟨by omega, by simp; omega⟩
      · simp only [hs, if_false] at hl; have := h.device _ _ hl; omega
  · intro rid sig hl
    rcases exec_atIdx_cases ss c with he | ⟨r, hc, he⟩
    · rw [he] at hl; exact Nat.lt_of_lt_of_le (h.atIdx _ _ hl) hm
    · subst hc
      rw [he, alookup_aset] at hl
      have hn : (ss.exec (.createAccess r)).1.next = ss.next + 1 := by simp [SState.exec]
      rw [hn]
      by_cases hs : rid = r.id
      · simp only [hs, if_true, Option.some.injEq] at hl; omega
      · simp only [hs, if_false] at hl; have := h.atIdx _ _ hl; omega
  · intro rid sig hl
    rcases exec_rtIdx_cases ss c with he | ⟨a, r, hc, he⟩
    · rw [he] at hl; exact Nat.lt_of_lt_of_le (h.rtIdx _ _ hl) hm
    · subst hc
      rw [he, alookup_aset] at hl
      have hn : (ss.exec (.createRefresh a r)).1.next = ss.next + 1 := by simp [SState.exec]
      rw [hn]
      by_cases hs : rid = r.id
      · simp only [hs, if_true, Option.some.injEq] at hl; omega
      · simp only [hs, if_false] at hl; have := h.rtIdx _ _ hl; omega

theorem execAll_Fresh (ss : SState) (cs : List Call) (h : Fresh ss) : Fresh (execAll ss cs) :=
  execAll_preserves Fresh exec_Fresh ss cs h

/-! ### `Fresh` holds in every state a history reaches -/

theorem fresh_empty : Fresh ({} : SState) := by
  constructor <;> (intro _ _ h; simp [alookup] at h)

theorem step_Fresh (s : MState) (op : Op) (h : Fresh s.ss) : Fresh (step s op).1.ss := by
  cases hp : op.prog s with
  | some p => rw [(step_prog s op p hp).1]; exact run_preserves {} plain_default Fresh exec_Fresh p _ h
  | none =>
    cases op with
    | setCfg c => exact h
    | setClient c => exact ⟨h.codes, h.access, h.refresh, h.par, h.device, h.atIdx, h.rtIdx⟩
    | advance d => exact h
    | deviceDecide sig acc gs ga sub =>
      simp only [step]
      cases hl : alookup s.ss.store.device sig with
      | none => exact h
      | some d =>
        refine ⟨h.codes, h.access, h.refresh, h.par, ?_, h.atIdx, h.rtIdx⟩
        intro sig' d' hl'
        simp only at hl'
        rw [alookup_aset] at hl'
        by_cases hs : sig' = sig
        · subst hs
          simp only [if_true, Option.some.injEq] at hl'
          have := h.device _ _ hl
          subst hl'
          by_cases ha : acc = true <;> simp [ha, this]
        · simp only [hs, if_false] at hl'; exact h.device _ _ hl'
    | _ => simp [Op.prog] at hp

theorem after_Fresh (ops : List Op) (s : MState) (h : Fresh s.ss) : Fresh (after s ops).ss := by
  induction ops generalizing s with
  | nil => exact h
  | cons op ops ih => exact ih _ (step_Fresh s op h)

/-- **the refresh token a `createRefresh` step stored is present and active at the end, or a later
    step is a removing call for it** -/
theorem created_refresh_present_or_removed (ss0 : SState) (hf : Fresh ss0) (l1 l2 : List (Nat × Call × Res)) (i a : Nat) (r : Req) (n : Nat)
    (hg : Genuine ss0 (l1 ++ (i, .createRefresh a r, .nat n) :: l2)) :
    alookup (execAll ss0 (traceCalls (l1 ++ (i, .createRefresh a r, .nat n) :: l2))).store.refresh n
        = some { active := true, atSig := a, req := r } ∨
      ∃ e ∈ l2, e.2.1.removesRefresh n r.id = true := by
  rw [genuine_append] at hg
  obtain ⟨_, hres, _⟩ := hg
  rw [traceCalls_append, execAll_append]
  have hf1 := execAll_Fresh ss0 (traceCalls l1) hf
  generalize execAll ss0 (traceCalls l1) = ss1 at hres hf1 ⊢
  have hn : n = ss1.next := by simp [SState.exec] at hres; exact hres.symm
  subst hn
  show alookup (execAll (ss1.exec (.createRefresh a r)).1 (traceCalls l2)).store.refresh ss1.next = some _ ∨ _
  apply refresh_kept_or_removed _ _ _ { active := true, atSig := a, req := r }
  · intro rid' hl
    simp only [SState.exec, alookup_aset] at hl
    by_cases hr : rid' = r.id
    · exact hr
    · simp only [hr, if_false] at hl; have := hf1.rtIdx _ _ hl; omega
  · simp [SState.exec, alookup_aset_self]
  · simp [SState.exec]

/-! ### minted values -/

/-- two minting steps of a sequential order answer increasing, non-overlapping values, all at or
    above the initial mint counter -/
theorem minted_increasing (ss0 : SState) (l1 l2 l3 : List (Nat × Call × Res)) (i j : Nat) (c1 c2 : Call) (r1 r2 : Res)
    (hg : Genuine ss0 (l1 ++ (i, c1, r1) :: (l2 ++ (j, c2, r2) :: l3)))
    (h1 : c1.mints = true) (h2 : c2.mints = true) :
    ∃ n1 n2, r1 = .nat n1 ∧ r2 = .nat n2 ∧ ss0.next ≤ n1 ∧ n1 + c1.mintWidth ≤ n2 := by
  rw [genuine_append] at hg
  obtain ⟨_, hres1, hg2⟩ := hg
  have hm1 := execAll_next_mono ss0 (traceCalls l1)
  generalize execAll ss0 (traceCalls l1) = ss1 at hres1 hg2 hm1
  rw [genuine_append] at hg2
  obtain ⟨_, hres2, _⟩ := hg2
  have hm2 := execAll_next_mono (ss1.exec c1).1 (traceCalls l2)
  generalize execAll (ss1.exec c1).1 (traceCalls l2) = ss2 at hres2 hm2
  obtain ⟨e1, n1⟩ := exec_mints ss1 c1 h1
  obtain ⟨e2, _⟩ := exec_mints ss2 c2 h2
  refine ⟨ss1.next, ss2.next, ?_, ?_, hm1, ?_⟩
  · rw [← hres1, e1]
  · rw [← hres2, e2]
  · rw [n1] at hm2; exact hm2

theorem minted_single (ss0 : SState) (l1 l2 : List (Nat × Call × Res)) (i : Nat) (c : Call) (r : Res)
    (hg : Genuine ss0 (l1 ++ (i, c, r) :: l2)) (h : c.mints = true) :
    ∃ n, r = .nat n ∧ ss0.next ≤ n := by
  rw [genuine_append] at hg
  obtain ⟨_, hres, _⟩ := hg
  have hm := execAll_next_mono ss0 (traceCalls l1)
  generalize execAll ss0 (traceCalls l1) = ss1 at hres hm
  exact ⟨ss1.next, by rw [← hres, (exec_mints ss1 c h).1], hm⟩

/-! ## 3. what a thread created and has not itself removed since -/

/-- per-thread ghost state: the access tokens `(signature, stored request)` and refresh tokens
    `(signature, access signature, stored request)` this thread created, minus those for which the
    thread itself has issued a removing call since -/
structure Own where
  acc : List (Nat × Req) := []
  rts : List (Nat × Nat × Req) := []

def Own.upd (g : Own) (c : Call) (r : Res) : Own :=
  match c with
  | .createAccess q => match r with
    | .nat n => { g with acc := (n, q) :: g.acc }
    | _ => g
  | .createRefresh a q => match r with
    | .nat n => { g with rts := (n, a, q) :: g.rts }
    | _ => g
  | .deleteAccess k => { g with acc := g.acc.filter (fun e => !(Call.deleteAccess k).removesAccess e.1 e.2.id) }
  | .revokeAccess rid => { g with acc := g.acc.filter (fun e => !(Call.revokeAccess rid).removesAccess e.1 e.2.id) }
  | .deleteRefresh k => { g with rts := g.rts.filter (fun e => !(Call.deleteRefresh k).removesRefresh e.1 e.2.2.id) }
  | .revokeRefresh rid => { g with rts := g.rts.filter (fun e => !(Call.revokeRefresh rid).removesRefresh e.1 e.2.2.id) }
  | .rotateRefresh rid k =>
    { acc := g.acc.filter (fun e => !(Call.rotateRefresh rid k).removesAccess e.1 e.2.id),
      rts := g.rts.filter (fun e => !(Call.rotateRefresh rid k).removesRefresh e.1 e.2.2.id) }
  | _ => g

/-- the ghost state after a path -/
def ownAfter (g : Own) (l : List (Call × Res)) : Own := l.foldl (fun g e => g.upd e.1 e.2) g

theorem mem_upd_acc (g : Own) (c : Call) (r : Res) (n : Nat) (q : Req) (h : (n, q) ∈ (g.upd c r).acc) :
    ((n, q) ∈ g.acc ∧ c.removesAccess n q.id = false) ∨ (c = .createAccess q ∧ r = .nat n) := by
  cases c <;> simp only [Own.upd] at h
  case createAccess q' =>
    cases r <;> simp only [List.mem_cons, Prod.mk.injEq] at h <;>
      first
      | (rcases h with ⟨rfl, rfl⟩ | h
         · right; exact ⟨rfl, rfl⟩
         · left; exact ⟨h, rfl⟩)
      | (left; exact ⟨h, rfl⟩)
  case createRefresh a q' => cases r <;> exact Or.inl ⟨h, rfl⟩
  case deleteAccess k => left; simpa [List.mem_filter] using h
  case revokeAccess rid => left; simpa [List.mem_filter] using h
  case rotateRefresh rid k => left; simpa [List.mem_filter] using h
  all_goals exact Or.inl ⟨h, rfl⟩

theorem mem_upd_rts (g : Own) (c : Call) (r : Res) (n a : Nat) (q : Req) (h : (n, a, q) ∈ (g.upd c r).rts) :
    ((n, a, q) ∈ g.rts ∧ c.removesRefresh n q.id = false) ∨ (c = .createRefresh a q ∧ r = .nat n) := by
  cases c <;> simp only [Own.upd] at h
  case createRefresh a' q' =>
    cases r <;> simp only [List.mem_cons, Prod.mk.injEq] at h <;>
      first
      | (rcases h with ⟨rfl, rfl, rfl⟩ | h
         · right; exact ⟨rfl, rfl⟩
         · left; exact ⟨h, rfl⟩)
      | (left; exact ⟨h, rfl⟩)
  case createAccess q' => cases r <;> exact Or.inl ⟨h, rfl⟩
  case deleteRefresh k => left; simpa [List.mem_filter] using h
  case revokeRefresh rid => left; simpa [List.mem_filter] using h
  case rotateRefresh rid k => left; simpa [List.mem_filter] using h
  all_goals exact Or.inl ⟨h, rfl⟩

/-- meaning of the ghost state: an owned access token was created on this path and no removing call
    for it follows on this path -/
theorem ownAfter_acc (g : Own) (l : List (Call × Res)) (n : Nat) (q : Req) (h : (n, q) ∈ (ownAfter g l).acc) :
    ((n, q) ∈ g.acc ∧ ∀ e ∈ l, e.1.removesAccess n q.id = false) ∨
    ∃ m1 m2, l = m1 ++ (.createAccess q, .nat n) :: m2 ∧ ∀ e ∈ m2, e.1.removesAccess n q.id = false := by
  induction l generalizing g with
  | nil => left; exact ⟨h, by intro e he; cases he⟩
  | cons e l ih =>
    obtain ⟨c, r⟩ := e
    rcases ih (g.upd c r) h with ⟨hm, hcl⟩ | ⟨m1, m2, hl, hcl⟩
    · rcases mem_upd_acc g c r n q hm with ⟨hm', hc⟩ | ⟨hc, hr⟩
      · left
        refine ⟨hm', ?_⟩
        intro e he
        rcases List.mem_cons.mp he with rfl | he
        · exact hc
        · exact hcl e he
      · right; subst hc hr; exact ⟨[], l, rfl, hcl⟩
    · right; exact ⟨(c, r) :: m1, m2, by rw [hl]; rfl, hcl⟩

theorem ownAfter_rts (g : Own) (l : List (Call × Res)) (n a : Nat) (q : Req) (h : (n, a, q) ∈ (ownAfter g l).rts) :
    ((n, a, q) ∈ g.rts ∧ ∀ e ∈ l, e.1.removesRefresh n q.id = false) ∨
    ∃ m1 m2, l = m1 ++ (.createRefresh a q, .nat n) :: m2 ∧ ∀ e ∈ m2, e.1.removesRefresh n q.id = false := by
  induction l generalizing g with
  | nil => left; exact ⟨h, by intro e he; cases he⟩
  | cons e l ih =>
    obtain ⟨c, r⟩ := e
    rcases ih (g.upd c r) h with ⟨hm, hcl⟩ | ⟨m1, m2, hl, hcl⟩
    · rcases mem_upd_rts g c r n a q hm with ⟨hm', hc⟩ | ⟨hc, hr⟩
      · left
        refine ⟨hm', ?_⟩
        intro e he
        rcases List.mem_cons.mp he with rfl | he
        · exact hc
        · exact hcl e he
      · right; subst hc hr; exact ⟨[], l, rfl, hcl⟩
    · right; exact ⟨(c, r) :: m1, m2, by rw [hl]; rfl, hcl⟩

/-- a decomposition of a thread's sub-trace is a decomposition of the whole trace -/
theorem subTrace_split (i : Nat) (tr : List (Nat × Call × Res)) (m1 m2 : List (Call × Res)) (e : Call × Res)
    (h : subTrace i tr = m1 ++ e :: m2) :
    ∃ l1 l2, tr = l1 ++ (i, e) :: l2 ∧ subTrace i l1 = m1 ∧ subTrace i l2 = m2 := by
  induction tr generalizing m1 with
  | nil => simp [subTrace] at h
  | cons x tr ih =>
    by_cases hx : x.1 = i
    · have hs : subTrace i (x :: tr) = x.2 :: subTrace i tr := by simp [subTrace, hx]
      rw [hs] at h
      cases m1 with
      | nil =>
        simp only [List.nil_append, List.cons.injEq] at h
        refine ⟨[], tr, ?_, rfl, h.2⟩
        obtain ⟨j, y⟩ := x
        simp only at hx h
        rw [hx, h.1]; rfl
      | cons y m1 =>
        simp only [List.cons_append, List.cons.injEq] at h
        obtain ⟨l1, l2, ht, h1, h2⟩ := ih m1 h.2
        refine ⟨x :: l1, l2, by rw [ht]; rfl, ?_, h2⟩
        have : subTrace i (x :: l1) = x.2 :: subTrace i l1 := by simp [subTrace, hx]
        rw [this, h1, h.1]
    · have hs : subTrace i (x :: tr) = subTrace i tr := by simp [subTrace, hx]
      rw [hs] at h
      obtain ⟨l1, l2, ht, h1, h2⟩ := ih m1 h
      refine ⟨x :: l1, l2, by rw [ht]; rfl, ?_, h2⟩
      have : subTrace i (x :: l1) = subTrace i l1 := by simp [subTrace, hx]
      rw [this, h1]

theorem mem_subTrace (i : Nat) (tr : List (Nat × Call × Res)) (e : Nat × Call × Res) (he : e ∈ tr) (hi : e.1 = i) :
    e.2 ∈ subTrace i tr := by
  simp only [subTrace, List.mem_map, List.mem_filter]
  exact ⟨e, ⟨he, by simp [hi]⟩, rfl⟩

/-! ### the calculus -/

/-- every run of the program, whatever the storage calls answer, ends with ghost state and value
    satisfying `K` -/
def ownK {α} : Own → Prog α → (Own → α → Prop) → Prop
  | g, .ret a, K => K g a
  | g, .call c k, K => ∀ r, ownK (g.upd c r) (k r) K

theorem ownK_sound {α} (g : Own) (p : Prog α) (K : Own → α → Prop) (l : List (Call × Res)) (a : α)
    (h : ownK g p K) (hf : Prog.follows p l (.ret a)) : K (ownAfter g l) a := by
  generalize hq : Prog.ret a = q at hf
  induction hf generalizing g with
  | nil p => subst hq; exact h
  | cons c k r l p' _ ih => exact ih (g.upd c r) (h r) hq

theorem ownK_mono {α} (g : Own) (p : Prog α) (K K' : Own → α → Prop)
    (h : ∀ g' a, K g' a → K' g' a) : ownK g p K → ownK g p K' := by
  induction p generalizing g with
  | ret a => exact h g a
  | call c k ih => intro hk r; exact ih r _ (hk r)

theorem ownK_true {α} (g : Own) (p : Prog α) : ownK g p (fun _ _ => True) := by
  induction p generalizing g with
  | ret a => trivial
  | call c k ih => intro r; exact ih r _

theorem ownK_bind {α β} (g : Own) (p : Prog α) (f : α → Prog β) (K : Own → β → Prop) :
    ownK g (p.bind f) K ↔ ownK g p (fun g' a => ownK g' (f a) K) := by
  induction p generalizing g with
  | ret a => exact Iff.rfl
  | call c k ih =>
    simp only [Prog.bind, ownK]
    constructor
    · intro h r; exact (ih r _).mp (h r)
    · intro h r; exact (ih r _).mpr (h r)

/-- whatever the first part does: if the rest is fine from every ghost state, the whole is -/
theorem ownK_bind_any {α β} (g : Own) (p : Prog α) (f : α → Prog β) (K : Own → β → Prop)
    (h : ∀ g' a, ownK g' (f a) K) : ownK g (p.bind f) K := by
  rw [ownK_bind]
  exact ownK_mono g p _ _ (fun g' a _ => h g' a) (ownK_true g p)

/-- handler level: errors may leave at any point (an error outcome hands out nothing) -/
def ownH {α} (g : Own) (x : HP α) (K : Own → α → Prop) : Prop :=
  ownK g x.toProg (fun g' r => match r with | .ok a => K g' a | .error _ => True)

theorem ownH_ok {α} (g) (a : α) (K) : ownH g (HP.ok a) K ↔ K g a := Iff.rfl
theorem ownH_pure {α} (g) (a : α) (K) : ownH g (pure a : HP α) K ↔ K g a := Iff.rfl
theorem ownH_fail {α} (g) (e : Err) (K : Own → α → Prop) : ownH g (HP.fail e) K := trivial

theorem ownH_failWith {α} (g) (p : Prog Err) (K : Own → α → Prop) : ownH g (HP.failWith p) K := by
  unfold ownH HP.failWith HP.mk HP.toProg
  rw [ownK_bind]
  exact ownK_mono g p _ _ (fun _ _ _ => trivial) (ownK_true g p)

theorem ownH_bind {α β} (g) (x : HP α) (f : α → HP β) (K) :
    ownH g (x >>= f) K ↔ ownH g x (fun g' a => ownH g' (f a) K) := by
  show ownH g (HP.bind x f) K ↔ _
  unfold ownH HP.bind HP.mk
  show ownK g (Prog.bind x.toProg _) _ ↔ _
  rw [ownK_bind]
  constructor <;>
  · apply ownK_mono
    intro g' r h
    cases r with
    | ok a => exact h
    | error e => trivial

theorem ownH_bind_any {α β} (g) (x : HP α) (f : α → HP β) (K) (h : ∀ g' a, ownH g' (f a) K) :
    ownH g (x >>= f) K := by
  rw [ownH_bind]
  unfold ownH
  apply ownK_mono g _ _ _ _ (ownK_true g _)
  intro g' r _
  cases r with
  | ok a => exact h g' a
  | error e => trivial

theorem ownH_guard (g) (c : Bool) (e : Err) (K) : ownH g (HP.guard c e) K ↔ (c = true → K g ()) := by
  unfold HP.guard
  cases c
  · simp only [Bool.false_eq_true, if_false, false_implies, iff_true]; exact ownH_fail g e K
  · simp only [if_true, true_implies]; exact ownH_ok g () K

theorem ownH_ite {α} (g) (c : Prop) [Decidable c] (x y : HP α) (K) :
    ownH g (if c then x else y) K ↔ (c → ownH g x K) ∧ (¬c → ownH g y K) := by
  split <;> simp_all

theorem ownH_optErr (g) (o : Option Err) (K) : ownH g (optErr o) K ↔ (o = none → K g ()) := by
  cases o
  · simp only [optErr, true_implies]; exact ownH_ok g () K
  · simp only [optErr, reduceCtorEq, false_implies, iff_true]; exact ownH_fail g _ K

theorem ownH_callH (g) (c : Call) (K) : ownH g (callH c) K ↔ ∀ r, K (g.upd c r) r := Iff.rfl

theorem ownH_expectReq (g) (c : Call) (other) (K) :
    ownH g (expectReq c other) K ↔ ∀ x, K (g.upd c (.req x)) x := by
  unfold expectReq ownH HP.mk
  show ownK g (Prog.call c _) _ ↔ _
  simp only [ownK]
  constructor
  · intro h x; exact h (.req x)
  · intro h r
    cases r <;> first | exact h _ | exact ownH_failWith _ _ K

theorem ownH_expectNat (g) (c : Call) (other) (K) :
    ownH g (expectNat c other) K ↔ ∀ n, K (g.upd c (.nat n)) n := by
  unfold expectNat ownH HP.mk
  show ownK g (Prog.call c _) _ ↔ _
  simp only [ownK]
  constructor
  · intro h x; exact h (.nat x)
  · intro h r
    cases r <;> first | exact h _ | exact ownH_failWith _ _ K

theorem ownH_expectDev (g) (c : Call) (other) (K) :
    ownH g (expectDev c other) K ↔ ∀ d, K (g.upd c (.dev d)) d := by
  unfold expectDev ownH HP.mk
  show ownK g (Prog.call c _) _ ↔ _
  simp only [ownK]
  constructor
  · intro h x; exact h (.dev x)
  · intro h r
    cases r <;> first | exact h _ | exact ownH_failWith _ _ K

theorem ownH_expectPar (g) (c : Call) (other) (K) :
    ownH g (expectPar c other) K ↔ ∀ p, K (g.upd c (.par p)) p := by
  unfold expectPar ownH HP.mk
  show ownK g (Prog.call c _) _ ↔ _
  simp only [ownK]
  constructor
  · intro h x; exact h (.par x)
  · intro h r
    cases r <;> first | exact h _ | exact ownH_failWith _ _ K

theorem ownH_expectClient (g) (c : Call) (e) (K) :
    ownH g (expectClient c e) K ↔ ∀ x, K (g.upd c (.client x)) x := by
  unfold expectClient ownH HP.mk
  show ownK g (Prog.call c _) _ ↔ _
  simp only [ownK]
  constructor
  · intro h x; exact h (.client x)
  · intro h r
    cases r <;> first | exact h _ | exact ownH_fail _ e K

theorem ownH_expectOk (g) (c : Call) (other) (K) :
    ownH g (expectOk c other) K ↔ ∀ r, r.errKind = none → K (g.upd c r) () := by
  unfold expectOk ownH HP.mk
  show ownK g (Prog.call c _) _ ↔ _
  simp only [ownK]
  constructor
  · intro h r hr
    have := h r
    rw [hr] at this
    exact this
  · intro h r
    cases hr : r.errKind with
    | none => exact h r hr
    | some e => exact ownH_failWith _ _ K

/-- closing a handler, for postconditions that every error outcome satisfies -/
theorem ownK_run (g) (x : HP Out) (K : Own → Out → Prop) (hK : ∀ g e, K g (.err e)) (h : ownH g x K) :
    ownK g x.run K := by
  unfold HP.run
  rw [ownK_bind]
  apply ownK_mono g x.toProg _ _ _ h
  intro g' r hr
  cases r with
  | ok a => exact hr
  | error e => exact hK g' e

/-! ### handler parts that touch no token record -/

/-- the call neither creates nor removes an access / refresh token -/
def Call.tokenNeutral : Call → Bool
  | .createAccess _ | .createRefresh _ _ | .deleteAccess _ | .revokeAccess _
  | .deleteRefresh _ | .revokeRefresh _ | .rotateRefresh _ _ => false
  | _ => true

theorem Own.upd_neutral (g : Own) (c : Call) (r : Res) (h : c.tokenNeutral = true) : g.upd c r = g := by
  cases c <;> simp [Call.tokenNeutral] at h <;> rfl

def neutral {α} : Prog α → Prop
  | .ret _ => True
  | .call c k => c.tokenNeutral = true ∧ ∀ r, neutral (k r)

theorem ownK_of_neutral {α} (g : Own) (p : Prog α) (K : Own → α → Prop) (hn : neutral p) (hK : ∀ a, K g a) :
    ownK g p K := by
  induction p with
  | ret a => exact hK a
  | call c k ih => intro r; rw [Own.upd_neutral g c r hn.1]; exact ih r (hn.2 r)

theorem neutral_bind {α β} (p : Prog α) (f : α → Prog β) (hp : neutral p) (hf : ∀ a, neutral (f a)) :
    neutral (p.bind f) := by
  induction p with
  | ret a => exact hf a
  | call c k ih => exact ⟨hp.1, fun r => ih r (hp.2 r)⟩

def neutralH {α} (x : HP α) : Prop := neutral x.toProg

theorem neutralH_ok {α} (a : α) : neutralH (HP.ok a) := trivial
theorem neutralH_pure {α} (a : α) : neutralH (pure a : HP α) := trivial
theorem neutralH_fail {α} (e : Err) : neutralH (HP.fail e : HP α) := trivial
theorem neutralH_bind {α β} (x : HP α) (f : α → HP β) (hx : neutralH x) (hf : ∀ a, neutralH (f a)) : neutralH (x >>= f) := by
  show neutral (HP.bind x f).toProg
  unfold HP.bind HP.mk HP.toProg
  apply neutral_bind _ _ hx
  intro r; cases r with
  | ok a => exact hf a
  | error e => trivial
theorem neutralH_guard (c : Bool) (e : Err) : neutralH (HP.guard c e) := by
  unfold HP.guard; split <;> trivial
theorem neutralH_callH (c : Call) (h : c.tokenNeutral = true) : neutralH (callH c) :=
  ⟨h, fun _ => trivial⟩
theorem neutralH_expectOk_retErr (c : Call) (e : Err) (h : c.tokenNeutral = true) :
    neutralH (expectOk c (fun _ => retErr e)) := by
  refine ⟨h, fun res => ?_⟩
  show neutral (match res.errKind with | none => _ | some e => _)
  cases res.errKind <;> trivial
theorem neutralH_optErr (o : Option Err) : neutralH (optErr o) := by cases o <;> trivial

/-- a token-neutral part leaves the ghost state alone -/
theorem ownH_bind_neutral {α β} (g) (x : HP α) (f : α → HP β) (K) (hx : neutralH x) (h : ∀ a, ownH g (f a) K) :
    ownH g (x >>= f) K := by
  rw [ownH_bind]
  unfold ownH
  apply ownK_of_neutral g _ _ hx
  intro r
  cases r with
  | ok a => exact h a
  | error e => trivial

/-! ## 4. every endpoint program hands out only tokens it created and did not remove -/

/-- the tokens the outcome hands to the caller are owned: created by this thread, and the thread
    has issued no removing call for them since -/
def Handed (g : Own) (o : Out) : Prop :=
  (∀ n, o.handedAccess = some n → ∃ q, (n, q) ∈ g.acc) ∧
  (∀ n, o.handedRefresh = some n → ∃ a q, (n, a, q) ∈ g.rts)

theorem Handed_of_none (g : Own) (o : Out) (h1 : o.handedAccess = none) (h2 : o.handedRefresh = none) : Handed g o := by
  constructor <;> intro n h
  · rw [h1] at h; cases h
  · rw [h2] at h; cases h

theorem Handed_err (g : Own) (e : Err) : Handed g (.err e) := Handed_of_none g _ rfl rfl

theorem ownH_of_neutral {α} (g) (x : HP α) (K : Own → α → Prop) (hx : neutralH x) (h : ∀ a, K g a) : ownH g x K := by
  unfold ownH
  apply ownK_of_neutral g _ _ hx
  intro r
  cases r with
  | ok a => exact h a
  | error e => trivial

theorem neutralH_pkceHandle (cfg code v client) : neutralH (pkceHandle cfg code v client) := by
  unfold pkceHandle
  apply neutralH_bind _ _ (neutralH_callH _ rfl); intro r
  split
  · apply neutralH_bind _ _ (neutralH_optErr _); intro _
    exact neutralH_optErr _
  · split
    · split
      · exact neutralH_optErr _
      · exact neutralH_fail _
    · exact neutralH_fail _

theorem neutralH_pkcePopulate (code) : neutralH (pkcePopulate code) := by
  unfold pkcePopulate
  apply neutralH_bind _ _ (neutralH_callH _ rfl); intro r
  split
  · exact neutralH_pure _
  · exact neutralH_pure _
  · exact neutralH_fail _

theorem neutralH_oidcExplicitPopulate (code client) : neutralH (oidcExplicitPopulate code client) := by
  unfold oidcExplicitPopulate
  apply neutralH_bind _ _ (neutralH_callH _ rfl); intro r
  split
  · apply neutralH_bind _ _ (neutralH_guard _ _); intro _
    apply neutralH_bind _ _ (neutralH_guard _ _); intro _
    apply neutralH_bind _ _ (neutralH_guard _ _); intro _
    apply neutralH_bind _ _ (neutralH_expectOk_retErr _ _ rfl); intro _
    exact neutralH_pure _
  · split
    · exact neutralH_pure _
    · exact neutralH_fail _

theorem neutralH_oidcDevicePopulate (code client) : neutralH (oidcDevicePopulate code client) := by
  unfold oidcDevicePopulate
  apply neutralH_bind _ _ (neutralH_guard _ _); intro _
  apply neutralH_bind _ _ (neutralH_callH _ rfl); intro r
  split
  · apply neutralH_bind _ _ (neutralH_guard _ _); intro _
    apply neutralH_bind _ _ (neutralH_guard _ _); intro _
    apply neutralH_bind _ _ (neutralH_expectOk_retErr _ _ rfl); intro _
    exact neutralH_pure _
  · split
    · exact neutralH_pure _
    · exact neutralH_fail _

theorem Handed_tokens (g : Own) (n : Nat) (rt : Option Nat) (b : Bool) (e : Int) (sc : List String) (q : Req)
    (h1 : (n, q) ∈ g.acc) (h2 : ∀ m, rt = some m → ∃ a q', (m, a, q') ∈ g.rts) : Handed g (.tokens n rt b e sc) := by
  constructor
  · intro m h; simp only [Out.handedAccess, Option.some.injEq] at h; subst h; exact ⟨q, h1⟩
  · intro m h; exact h2 m h

theorem own_redeemH (cfg : Config) (now : Time) (q : RedeemReq) (g : Own) : ownH g (redeemH cfg now q) Handed := by
  unfold redeemH
  simp only [ownH_bind, ownH_callH, ownH_guard, ownH_pure, authenticate, ownH_expectClient, ownH_ite, ownH_ok,
    ownH_expectReq, ownH_expectOk, ownH_expectNat, Own.upd]
  intro _ client _ _ ar _ _ _
  apply ownH_of_neutral _ _ _ (neutralH_pkceHandle _ _ _ _); intro _
  intro ar2 _ _ _ _ _ n
  refine ⟨?_, ?_⟩
  · intro _ n1 _ _
    apply ownH_of_neutral _ _ _ (neutralH_oidcExplicitPopulate _ _); intro idt
    apply ownH_of_neutral _ _ _ (neutralH_pkcePopulate _); intro _
    exact Handed_tokens _ _ _ _ _ _ _ List.mem_cons_self (fun m h => by cases h; exact ⟨_, _, List.mem_cons_self⟩)
  · intro _ _ _
    apply ownH_of_neutral _ _ _ (neutralH_oidcExplicitPopulate _ _); intro idt
    apply ownH_of_neutral _ _ _ (neutralH_pkcePopulate _); intro _
    exact Handed_tokens _ _ _ _ _ _ _ List.mem_cons_self (fun m h => by cases h)

theorem own_refreshH (cfg : Config) (now : Time) (q : RefreshReq) (g : Own) : ownH g (refreshH cfg now q) Handed := by
  unfold refreshH
  simp only [ownH_bind, ownH_callH, ownH_guard, ownH_pure, authenticate, ownH_expectClient,
    ownH_expectReq, ownH_expectOk, ownH_expectNat, ownH_optErr, Own.upd]
  intro _ client _ _ orig _ _ _ _ _ _ _ _ _ _ n n1 _ _ _
  exact Handed_tokens _ _ _ _ _ _ _ List.mem_cons_self (fun m h => by cases h; exact ⟨_, _, List.mem_cons_self⟩)

theorem neutralH_deviceStateGate (d : DevRec) : neutralH (deviceStateGate d) := by
  unfold deviceStateGate
  split
  · exact neutralH_fail _
  · split
    · exact neutralH_fail _
    · exact neutralH_ok _

theorem own_devicePollH (cfg : Config) (now : Time) (q : DevicePollReq) (g : Own) : ownH g (devicePollH cfg now q) Handed := by
  unfold devicePollH
  simp only [ownH_bind, ownH_callH, ownH_guard, ownH_pure, authenticate, ownH_expectClient, ownH_ite, ownH_ok,
    ownH_expectOk, ownH_expectNat, ownH_expectDev, Own.upd]
  intro _ client _ _ d
  apply ownH_of_neutral _ _ _ (neutralH_deviceStateGate _); intro _
  intro _ _ _ d2 _ _ _ _ _ _ n
  refine ⟨?_, ?_⟩
  · intro _ n1 _ _
    apply ownH_of_neutral _ _ _ (neutralH_oidcDevicePopulate _ _); intro idt
    exact Handed_tokens _ _ _ _ _ _ _ List.mem_cons_self (fun m h => by cases h; exact ⟨_, _, List.mem_cons_self⟩)
  · intro _ _ _
    apply ownH_of_neutral _ _ _ (neutralH_oidcDevicePopulate _ _); intro idt
    exact Handed_tokens _ _ _ _ _ _ _ List.mem_cons_self (fun m h => by cases h)

theorem own_clientCredentialsH (cfg : Config) (now : Time) (q : DirectReq) (g : Own) : ownH g (clientCredentialsH cfg now q) Handed := by
  unfold clientCredentialsH
  simp only [ownH_bind, ownH_guard, ownH_pure, authenticate, ownH_expectClient,
    ownH_expectNat, ownH_optErr, Own.upd]
  intro rid client _ _ _ _ _ n
  exact Handed_tokens _ _ _ _ _ _ _ List.mem_cons_self (fun m h => by cases h)

theorem own_passwordH (cfg : Config) (now : Time) (q : DirectReq) (g : Own) : ownH g (passwordH cfg now q) Handed := by
  unfold passwordH
  simp only [ownH_bind, ownH_callH, ownH_guard, authenticate, ownH_expectClient,
    ownH_expectNat, ownH_optErr, Own.upd]
  intro rid client _ _ _ _ _ r
  split
  · simp only [ownH_bind, ownH_pure, ownH_ite, ownH_expectNat, Own.upd]
    intro n
    refine ⟨?_, ?_⟩
    · intro _ n1
      exact Handed_tokens _ _ _ _ _ _ _ List.mem_cons_self (fun m h => by cases h; exact ⟨_, _, List.mem_cons_self⟩)
    · intro _
      exact Handed_tokens _ _ _ _ _ _ _ List.mem_cons_self (fun m h => by cases h)
  · split
    · exact ownH_fail _ _ _
    · exact ownH_fail _ _ _

/-! ### endpoints that hand out no token -/

theorem own_deviceAuthH (cfg : Config) (now : Time) (q : DeviceAuthReq) (g : Own) : ownH g (deviceAuthH cfg now q) Handed := by
  unfold deviceAuthH
  simp only [ownH_bind, ownH_guard, ownH_pure, authenticate, ownH_expectClient, ownH_expectNat, ownH_optErr, Own.upd]
  intros
  exact Handed_of_none _ _ rfl rfl

theorem own_parPushH (cfg : Config) (now : Time) (p : ParPushReq) (g : Own) : ownH g (parPushH cfg now p) Handed := by
  unfold parPushH
  simp only [ownH_bind, ownH_guard, ownH_pure, authenticate, ownH_expectClient, ownH_expectNat, ownH_optErr, ownH_ite, Own.upd]
  intros
  constructor <;> (intros; exact Handed_of_none _ _ rfl rfl)

theorem own_revocationError (e1 e2 : Option Err) (g : Own) : ownH g (revocationError e1 e2) Handed := by
  unfold revocationError
  split
  · exact Handed_of_none _ _ rfl rfl
  · exact ownH_fail _ _ _

theorem own_revokeFound (client : Client) (ar : Req) (g : Own) : ownH g (revokeH.revokeFound client ar) Handed := by
  unfold revokeH.revokeFound
  apply ownH_bind_any; intro g _
  apply ownH_bind_any; intro g _
  apply ownH_bind_any; intro g _
  exact own_revocationError _ _ _

theorem own_revokeH (q : RevokeReq) (g : Own) : ownH g (revokeH q) Handed := by
  unfold revokeH
  apply ownH_bind_any; intro g client
  apply ownH_bind_any; intro g r1
  split
  · exact own_revokeFound _ _ _
  · apply ownH_bind_any; intro g r2
    split
    · exact own_revokeFound _ _ _
    · exact own_revocationError _ _ _

theorem ownK_pbind_any {α β} (g : Own) (p : Prog α) (f : α → Prog β) (K : Own → β → Prop)
    (h : ∀ g' a, ownK g' (f a) K) : ownK g (p >>= f) K := ownK_bind_any g p f K h

theorem own_introspectProg (cfg : Config) (now : Time) (q : IntrospectReq) (g : Own) :
    ownK g (introspectProg cfg now q) Handed := by
  have leaf : ∀ (g : Own) (o : Out), o.handedAccess = none → o.handedRefresh = none → ownK g (pure o : Prog Out) Handed :=
    fun g o h1 h2 => Handed_of_none g o h1 h2
  unfold introspectProg
  split
  · apply ownK_pbind_any; intro g r
    cases r <;> exact leaf _ _ rfl rfl
  · split
    · apply ownK_pbind_any; intro g r
      cases r with
      | ok a => exact leaf _ _ rfl rfl
      | error e =>
        apply ownK_pbind_any; intro g r
        cases r <;> exact leaf _ _ rfl rfl
    · apply ownK_pbind_any; intro g r
      cases r with
      | ok a => exact leaf _ _ rfl rfl
      | error e =>
        apply ownK_pbind_any; intro g r
        cases r <;> exact leaf _ _ rfl rfl

theorem own_introspectEndpointProg (cfg : Config) (now : Time) (r : IntrospectEndpointReq) (g : Own) :
    ownK g (introspectEndpointProg cfg now r) Handed := by
  have leaf : ∀ (g : Own) (o : Out), o.handedAccess = none → o.handedRefresh = none → ownK g (pure o : Prog Out) Handed :=
    fun g o h1 h2 => Handed_of_none g o h1 h2
  unfold introspectEndpointProg
  extract_lets inspect
  have hinspect : ∀ g, ownK g inspect Handed := by
    intro g
    apply ownK_pbind_any; intro g o
    cases o <;> exact leaf _ _ rfl rfl
  split
  · split
    · exact leaf _ _ rfl rfl
    · apply ownK_pbind_any; intro g o
      cases o <;> first
        | exact leaf _ _ rfl rfl
        | (show ownK g (if _ then _ else _) _
           split
           · exact leaf _ _ rfl rfl
           · exact hinspect g)
  · apply ownK_pbind_any; intro g res
    cases res <;> first
      | exact leaf _ _ rfl rfl
      | (show ownK g (if _ then _ else _) _
         split
         · exact hinspect g
         · exact leaf _ _ rfl rfl)
  · exact leaf _ _ rfl rfl

/-! ### the authorization endpoint -/

/-- the access token collected so far (implicit / hybrid `token`) is owned -/
def AtkInv (g : Own) (acc : AuthzAcc) : Prop := ∀ n, acc.atk = some n → ∃ q, (n, q) ∈ g.acc

theorem own_authzExplicit (cfg now client q acc) (g : Own) (h : AtkInv g acc) :
    ownH g (authzExplicit cfg now client q acc) AtkInv := by
  unfold authzExplicit
  split
  · exact h
  · simp only [ownH_bind, ownH_guard, ownH_pure, ownH_expectNat, ownH_optErr, Own.upd]
    intros
    exact h

theorem own_authzImplicit (cfg now client q acc) (g : Own) (h : AtkInv g acc) :
    ownH g (authzImplicit cfg now client q acc) AtkInv := by
  unfold authzImplicit
  split
  · exact h
  · simp only [ownH_bind, ownH_guard, ownH_pure, ownH_expectNat, ownH_optErr, Own.upd]
    intro _ _ _ n m hm
    cases hm
    exact ⟨_, List.mem_cons_self⟩

theorem own_authzOIDCExplicit (q acc) (g : Own) (h : AtkInv g acc) :
    ownH g (authzOIDCExplicit q acc) AtkInv := by
  unfold authzOIDCExplicit
  split
  · exact h
  · split
    · exact ownH_fail _ _ _
    · simp only [ownH_bind, ownH_guard, ownH_pure, ownH_expectOk, Own.upd]
      intros
      exact h

theorem own_authzPKCE (cfg client q acc) (g : Own) (h : AtkInv g acc) :
    ownH g (authzPKCE cfg client q acc) AtkInv := by
  unfold authzPKCE
  split
  · exact h
  · simp only [ownH_bind, ownH_optErr]
    intro _
    split
    · exact h
    · split
      · exact ownH_fail _ _ _
      · simp only [ownH_bind, ownH_pure, ownH_expectOk, Own.upd]
        intros
        exact h

theorem own_authzHybrid (cfg now minNonce client q acc) (g : Own) (h : AtkInv g acc) :
    ownH g (authzHybrid cfg now minNonce client q acc) AtkInv := by
  unfold authzHybrid
  simp only [ownH_bind, ownH_guard, ownH_pure, ownH_expectNat, ownH_expectOk, ownH_ite, Own.upd]
  refine ⟨fun _ => h, ?_⟩
  intro _ _ _ _ _ _ _ c
  refine ⟨?_, ?_⟩
  · intro _ _ _
    refine ⟨?_, fun _ => h⟩
    intro _ _ n m hm
    cases hm
    exact ⟨_, List.mem_cons_self⟩
  · intro _
    refine ⟨?_, fun _ => h⟩
    intro _ _ n m hm
    cases hm
    exact ⟨_, List.mem_cons_self⟩

theorem Handed_authz (g : Own) (acc : AuthzAcc) (h : AtkInv g acc) : Handed g (.authz acc.code acc.atk acc.idt) :=
  ⟨fun n hn => h n hn, fun n hn => by cases hn⟩

/-- the six response-type handlers in registration order, then the answer -/
theorem own_authzChain (cfg : Config) (now : Time) (minNonce : Nat) (client : Client) (q : AuthzReq) (acc0 : AuthzAcc)
    (g : Own) (h : AtkInv g acc0) :
    ownH g (do
      let acc1 ← authzExplicit cfg now client q acc0
      let acc2 ← authzImplicit cfg now client q acc1
      let acc3 ← authzOIDCExplicit q acc2
      HP.guard (!(matchesArgs q.responseTypes ["id_token"] || matchesArgs q.responseTypes ["token", "id_token"])) .unsupported_response_type
      let acc5 ← authzHybrid cfg now minNonce client q acc3
      let acc6 ← authzPKCE cfg client q acc5
      return .authz acc6.code acc6.atk acc6.idt) Handed := by
  have mono : ∀ {α} (g : Own) (x : HP α) (K K' : Own → α → Prop), (∀ g' a, K g' a → K' g' a) → ownH g x K → ownH g x K' := by
    intro α g x K K' hk hx
    unfold ownH at hx ⊢
    apply ownK_mono g _ _ _ _ hx
    intro g' r hr
    cases r with
    | ok a => exact hk g' a hr
    | error e => trivial
  rw [ownH_bind]; apply mono _ _ _ _ _ (own_authzExplicit cfg now client q acc0 g h); intro g1 acc1 h1
  rw [ownH_bind]; apply mono _ _ _ _ _ (own_authzImplicit cfg now client q acc1 g1 h1); intro g2 acc2 h2
  rw [ownH_bind]; apply mono _ _ _ _ _ (own_authzOIDCExplicit q acc2 g2 h2); intro g3 acc3 h3
  rw [ownH_bind, ownH_guard]; intro _
  rw [ownH_bind]; apply mono _ _ _ _ _ (own_authzHybrid cfg now minNonce client q acc3 g3 h3); intro g5 acc5 h5
  rw [ownH_bind]; apply mono _ _ _ _ _ (own_authzPKCE cfg client q acc5 g5 h5); intro g6 acc6 h6
  exact Handed_authz g6 acc6 h6

theorem own_authorizeH (cfg : Config) (now : Time) (minNonce : Nat) (q : AuthzReq) (g : Own) :
    ownH g (authorizeH cfg now minNonce q) Handed := by
  unfold authorizeH
  apply ownH_bind_any; intro g _
  apply ownH_bind_any; intro g client
  apply ownH_bind_any; intro g _
  apply ownH_bind_any; intro g _
  apply ownH_bind_any; intro g rid
  exact own_authzChain cfg now minNonce client q _ g (by intro n hn; cases hn)

theorem own_authorizeParH (cfg : Config) (now : Time) (minNonce : Nat) (a : AuthzParReq) (g : Own) :
    ownH g (authorizeParH cfg now minNonce a) Handed := by
  unfold authorizeParH
  apply ownH_bind_any; intro g p
  apply ownH_bind_any; intro g _
  apply ownH_bind_any; intro g _
  apply ownH_bind_any; intro g _
  exact own_authzChain cfg now minNonce _ _ _ g (by intro n hn; cases hn)

/-- **every endpoint program hands out only tokens it created itself and did not remove afterwards** —
    whatever the store answers to each of its calls -/
theorem own_op (s : MState) (op : Op) (p : Prog Out) (h : op.prog s = some p) : ownK {} p Handed := by
  cases op <;> simp only [Op.prog, Option.some.injEq, reduceCtorEq] at h <;> subst h
  · exact ownK_run _ _ _ Handed_err (own_authorizeH _ _ _ _ _)
  · exact ownK_run _ _ _ Handed_err (own_redeemH _ _ _ _)
  · exact ownK_run _ _ _ Handed_err (own_refreshH _ _ _ _)
  · exact ownK_run _ _ _ Handed_err (own_revokeH _ _)
  · exact own_introspectProg _ _ _ _
  · exact own_introspectEndpointProg _ _ _ _
  · exact ownK_run _ _ _ Handed_err (own_clientCredentialsH _ _ _ _)
  · exact ownK_run _ _ _ Handed_err (own_passwordH _ _ _ _)
  · exact ownK_run _ _ _ Handed_err (own_deviceAuthH _ _ _ _)
  · exact ownK_run _ _ _ Handed_err (own_devicePollH _ _ _ _)
  · exact ownK_run _ _ _ Handed_err (own_parPushH _ _ _ _)
  · exact ownK_run _ _ _ Handed_err (own_authorizeParH _ _ _ _ _)

/-! ## 5. handed tokens under every schedule -/

/-- every thread runs a program that hands out only tokens it created and did not remove -/
def Sys.Owned (s : Sys) : Prop := ∀ t ∈ s.thr, ownK {} t.prog Handed

theorem init_owned (m : MState) (ops : List Op) : (Sys.init m ops).Owned := by
  intro t ht
  simp only [Sys.init, List.mem_map, List.mem_filterMap] at ht
  obtain ⟨p, ⟨op, _, hp⟩, rfl⟩ := ht
  rw [Thr.prog_ofProg]
  exact own_op m op p hp

theorem outs_getElem? (s : Sys) (i : Nat) (o : Out) (h : s.outs[i]? = some (some o)) :
    ∃ t, s.thr[i]? = some t ∧ t.prog = .ret o := by
  simp only [Sys.outs, List.getElem?_map, Option.map_eq_some_iff] at h
  obtain ⟨t, ht, ho⟩ := h
  exact ⟨t, ht, (Thr.out_eq_some t o).mp ho⟩

/-- what the ownership calculus says about a finished thread, in terms of its own sub-trace -/
theorem finished_thread_owns (s0 : Sys) (ho : s0.Owned) (sched : List Nat) (i : Nat) (o : Out)
    (hout : (runSched s0 sched).outs[i]? = some (some o)) :
    Handed (ownAfter {} (subTrace i (newTrace s0 sched))) o := by
  have R := reach_newTrace s0 sched
  obtain ⟨t, ht, hp⟩ := outs_getElem? _ i o hout
  have hilt : i < s0.thr.length := by
    rw [← R.len]; exact (List.getElem?_eq_some_iff.mp ht).1
  obtain ⟨t', ht', hf⟩ := R.thr i s0.thr[i] (List.getElem?_eq_getElem hilt)
  rw [ht] at ht'; cases ht'
  rw [hp] at hf
  exact ownK_sound {} _ Handed _ o (ho _ (List.getElem_mem hilt)) hf

theorem handed_access (s0 : Sys) (ho : s0.Owned) (sched : List Nat) (i : Nat) (o : Out) (atk : Nat)
    (hout : (runSched s0 sched).outs[i]? = some (some o)) (ha : o.handedAccess = some atk) :
    ∃ q l1 l2, newTrace s0 sched = l1 ++ (i, .createAccess q, .nat atk) :: l2 ∧
      (alookup (runSched s0 sched).ss.store.access atk = some q ∨
        ∃ e ∈ l2, e.1 ≠ i ∧ e.2.1.removesAccess atk q.id = true) := by
  have R := reach_newTrace s0 sched
  obtain ⟨q, hq⟩ := (finished_thread_owns s0 ho sched i o hout).1 atk ha
  rcases ownAfter_acc {} _ atk q hq with ⟨hm, _⟩ | ⟨m1, m2, hl, hcl⟩
  · cases hm
  · obtain ⟨l1, l2, htr, _, h2⟩ := subTrace_split i _ m1 m2 _ hl
    refine ⟨q, l1, l2, htr, ?_⟩
    have hg := R.genuine
    rw [htr] at hg
    rcases created_access_present_or_removed s0.ss l1 l2 i q atk hg with h | ⟨e, he, hr⟩
    · left; rw [R.ss, htr]; exact h
    · right
      refine ⟨e, he, ?_, hr⟩
      intro hi
      have := hcl e.2 (by rw [← h2]; exact mem_subTrace i l2 e he hi)
      rw [this] at hr; cases hr

theorem handed_refresh (s0 : Sys) (ho : s0.Owned) (hf : Fresh s0.ss) (sched : List Nat) (i : Nat) (o : Out) (rt : Nat)
    (hout : (runSched s0 sched).outs[i]? = some (some o)) (ha : o.handedRefresh = some rt) :
    ∃ a q l1 l2, newTrace s0 sched = l1 ++ (i, .createRefresh a q, .nat rt) :: l2 ∧
      (alookup (runSched s0 sched).ss.store.refresh rt = some { active := true, atSig := a, req := q } ∨
        ∃ e ∈ l2, e.1 ≠ i ∧ e.2.1.removesRefresh rt q.id = true) := by
  have R := reach_newTrace s0 sched
  obtain ⟨a, q, hq⟩ := (finished_thread_owns s0 ho sched i o hout).2 rt ha
  rcases ownAfter_rts {} _ rt a q hq with ⟨hm, _⟩ | ⟨m1, m2, hl, hcl⟩
  · cases hm
  · obtain ⟨l1, l2, htr, _, h2⟩ := subTrace_split i _ m1 m2 _ hl
    refine ⟨a, q, l1, l2, htr, ?_⟩
    have hg := R.genuine
    rw [htr] at hg
    rcases created_refresh_present_or_removed s0.ss hf l1 l2 i a q rt hg with h | ⟨e, he, hr⟩
    · left; rw [R.ss, htr]; exact h
    · right
      refine ⟨e, he, ?_, hr⟩
      intro hi
      have := hcl e.2 (by rw [← h2]; exact mem_subTrace i l2 e he hi)
      rw [this] at hr; cases hr

/-! ### positions in a trace -/

theorem split_at {α} (l : List α) (a : Nat) (x : α) (h : l[a]? = some x) :
    ∃ l1 l2, l = l1 ++ x :: l2 ∧ l1.length = a := by
  induction l generalizing a with
  | nil => simp at h
  | cons y l ih =>
    cases a with
    | zero => simp at h; subst h; exact ⟨[], l, rfl, rfl⟩
    | succ a =>
      simp at h
      obtain ⟨l1, l2, hl, hn⟩ := ih a h
      exact ⟨y :: l1, l2, by rw [hl]; rfl, by simp [hn]⟩

theorem split_at_two {α} (l : List α) (a b : Nat) (x y : α) (hab : a < b) (ha : l[a]? = some x) (hb : l[b]? = some y) :
    ∃ l1 l2 l3, l = l1 ++ x :: (l2 ++ y :: l3) := by
  obtain ⟨l1, rest, hl, hn⟩ := split_at l a x ha
  subst hl
  have : (x :: rest)[b - l1.length]? = some y := by
    rw [List.getElem?_append_right (by omega)] at hb; exact hb
  have hb' : rest[b - l1.length - 1]? = some y := by
    have hpos : b - l1.length = (b - l1.length - 1) + 1 := by omega
    rw [hpos] at this
    simpa using this
  obtain ⟨l2, l3, hr, _⟩ := split_at rest _ y hb'
  exact ⟨l1, l2, l3, by rw [hr]⟩

/-- nothing at or above the mint counter is in a `Fresh` store -/
theorem fresh_absent (ss : SState) (hf : Fresh ss) (k : Nat) (hk : ss.next ≤ k) :
    alookup ss.store.codes k = none ∧ alookup ss.store.access k = none ∧ alookup ss.store.refresh k = none ∧
    alookup ss.store.par k = none ∧ alookup ss.store.device k = none ∧
    (∀ sig d, alookup ss.store.device sig = some d → d.userSig ≠ k) ∧
    (∀ rid, alookup ss.store.atIdx rid ≠ some k) ∧ (∀ rid, alookup ss.store.rtIdx rid ≠ some k) := by
  refine ⟨?_, ?_, ?_, ?_, ?_, ?_, ?_, ?_⟩
  · cases h : alookup ss.store.codes k with
    | none => rfl
    | some v => have := hf.codes k v h; omega
  · cases h : alookup ss.store.access k with
    | none => rfl
    | some v => have := hf.access k v h; omega
  · cases h : alookup ss.store.refresh k with
    | none => rfl
    | some v => have := hf.refresh k v h; omega
  · cases h : alookup ss.store.par k with
    | none => rfl
    | some v => have := hf.par k v h; omega
  · cases h : alookup ss.store.device k with
    | none => rfl
    | some v => have := (hf.device k v h).1; omega
  · intro sig d h; have := (hf.device sig d h).2; omega
  · intro rid h; have := hf.atIdx rid k h; omega
  · intro rid h; have := hf.rtIdx rid k h; omega

end Fosite.Model

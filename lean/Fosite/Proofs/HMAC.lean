/-
  Lemmas for C06 (HMAC token layer): the Go loops of `Model/HMAC.lean` against the declarative
  `Spec/HMAC.lean`.  Property theorems are in `Props/C06.lean`.
-/
import Fosite.Model.HMAC
import Fosite.Spec.HMAC
import Fosite.Proofs.Scope
namespace Fosite.Proofs.HMAC
open Fosite.Model.HMAC Fosite.Spec.HMAC
open Fosite.Model (splitDot)

/-! ### `strings.Cut` -/

theorem cutDot_append (a b : Str) (h : '.' ∉ a) : cutDot (a ++ '.' :: b) = some (a, b) := by
  induction a with
  | nil => simp [cutDot]
  | cons c cs ih =>
    have hc : c ≠ '.' := fun e => h (by simp [e])
    have hcs : '.' ∉ cs := fun e => h (by simp [e])
    simp [cutDot, hc, ih hcs]

theorem cutDot_some (tok a b : Str) (h : cutDot tok = some (a, b)) : tok = a ++ '.' :: b ∧ '.' ∉ a := by
  induction tok generalizing a with
  | nil => simp [cutDot] at h
  | cons c cs ih =>
    unfold cutDot at h
    by_cases hc : c = '.'
    · simp only [hc, if_true, Option.some.injEq, Prod.mk.injEq] at h
      obtain ⟨rfl, rfl⟩ := h
      simp [hc]
    · simp only [hc, if_false] at h
      cases hcs : cutDot cs with
      | none => simp [hcs] at h
      | some p =>
        obtain ⟨a', b'⟩ := p
        simp only [hcs, Option.some.injEq, Prod.mk.injEq] at h
        obtain ⟨rfl, rfl⟩ := h
        obtain ⟨h1, h2⟩ := ih a' hcs
        refine ⟨by simp [h1], ?_⟩
        intro hm
        cases hm with
        | head => exact hc rfl
        | tail _ hm => exact h2 hm

theorem cutDot_some_iff (tok a b : Str) : cutDot tok = some (a, b) ↔ tok = a ++ '.' :: b ∧ '.' ∉ a :=
  ⟨cutDot_some tok a b, fun ⟨h1, h2⟩ => h1 ▸ cutDot_append a b h2⟩

theorem cutDot_none_iff (tok : Str) : cutDot tok = none ↔ '.' ∉ tok := by
  induction tok with
  | nil => simp [cutDot]
  | cons c cs ih =>
    unfold cutDot
    by_cases hc : c = '.'
    · simp [hc]
    · cases hcs : cutDot cs with
      | none =>
        have := ih.mp hcs
        simp [hc, this, Ne.symm hc]
      | some p =>
        have : ¬ ('.' ∉ cs) := fun h => by simp [ih.mpr h] at hcs
        simp only [hc, if_false, List.mem_cons, not_or]
        simp only [Decidable.not_not] at this
        simp [this]

theorem cutDot_eq_parts (tok : Str) : cutDot tok = parts tok := by
  induction tok with
  | nil => simp [cutDot, parts]
  | cons c cs ih =>
    unfold cutDot parts
    by_cases hc : c = '.'
    · simp [hc]
    · have hb : (c != '.') = true := by simp [hc]
      simp only [hc, if_false, List.dropWhile_cons, List.takeWhile_cons, hb, if_true]
      rw [ih]
      unfold parts
      cases cs.dropWhile (· != '.') <;> simp

/-! ### one key -/

theorem signingKey_of_usable (k : Bytes) (h : 32 ≤ k.length) : signingKey k = k.take 32 := by
  unfold signingKey
  exact List.take_append_of_le_length h

theorem signingKey_length (k : Bytes) : (signingKey k).length = 32 := by
  unfold signingKey
  simp

/-- `validate` for one key, in terms of the token's shape. -/
theorem validate1_eq (C : Crypto) (k : Bytes) (tok : Str) :
    validate1 C k tok =
      if k.length < 32 then .err_short_secret
      else match shape C tok with
        | .good r s => if C.mac (k.take 32) r = s then .ok else .signature_mismatch
        | bad => bad.err := by
  unfold validate1 minimumSecretLength
  by_cases hk : k.length < 32
  · simp [hk]
  · simp only [hk, if_false]
    rw [signingKey_of_usable k (by omega), cutDot_eq_parts]
    unfold shape
    cases parts tok with
    | none => simp [Shape.err]
    | some p =>
      obtain ⟨a, b⟩ := p
      cases a with
      | nil => simp [Shape.err]
      | cons x xs =>
        cases b with
        | nil => simp [Shape.err]
        | cons y ys =>
          simp only [List.isEmpty_cons, Bool.or_self, Bool.false_eq_true, if_false, reduceCtorEq, or_self]
          cases C.dec (y :: ys) <;> cases C.dec (x :: xs) <;> simp [Shape.err]

theorem shape_good_iff (C : Crypto) (tok : Str) (r s : Bytes) :
    shape C tok = .good r s ↔ WellFormed C tok r s := by
  unfold shape WellFormed
  rw [← cutDot_eq_parts]
  constructor
  · intro h
    cases hc : cutDot tok with
    | none => simp [hc] at h
    | some p =>
      obtain ⟨a, b⟩ := p
      obtain ⟨h1, h2⟩ := cutDot_some tok a b hc
      simp only [hc] at h
      refine ⟨a, b, h1, h2, ?_⟩
      cases a with
      | nil => simp at h
      | cons x xs =>
        cases b with
        | nil => simp at h
        | cons y ys =>
          simp only [List.isEmpty_cons, Bool.or_self, Bool.false_eq_true, if_false] at h
          cases hb : C.dec (y :: ys) with
          | none => simp [hb] at h
          | some s' =>
            cases ha : C.dec (x :: xs) with
            | none => simp [hb, ha] at h
            | some r' =>
              simp only [hb, ha, Shape.good.injEq] at h
              simp [h.1, h.2]
  · rintro ⟨a, b, h1, h2, ha, hb, hda, hdb⟩
    rw [(cutDot_some_iff tok a b).mpr ⟨h1, h2⟩]
    cases a with
    | nil => exact absurd rfl ha
    | cons x xs =>
      cases b with
      | nil => exact absurd rfl hb
      | cons y ys => simp [hda, hdb]

/-! ### the key loop -/

/-- decision predicate of one key on a well-formed token -/
def decides (C : Crypto) (r s : Bytes) (k : Bytes) : Bool := !usable k || authentic C k r s

theorem validateLoop_good (C : Crypto) (tok : Str) (r s : Bytes) (h : shape C tok = .good r s)
    (keys : List Bytes) (e0 : Outcome) :
    validateLoop C tok keys e0 =
      match keys.find? (decides C r s) with
      | none => if keys = [] then e0 else .signature_mismatch
      | some k => if usable k then .ok else .err_short_secret := by
  induction keys generalizing e0 with
  | nil => simp [validateLoop]
  | cons k ks ih =>
    unfold validateLoop
    rw [validate1_eq, h]
    by_cases hk : k.length < 32
    · have hu : usable k = false := by simp [usable]; omega
      simp [hk, decides, hu]
    · have hu : usable k = true := by simp [usable]; omega
      by_cases hm : C.mac (k.take 32) r = s
      · simp [hk, hm, decides, hu, authentic]
      · have ha : authentic C k r s = false := by simp [authentic, hm]
        simp only [hk, if_false, hm, List.find?_cons, decides, hu, ha, Bool.not_true, Bool.or_self]
        rw [ih]
        cases ks.find? (decides C r s) <;> simp

theorem validateLoop_bad (C : Crypto) (tok : Str) (h : ∀ r s, shape C tok ≠ .good r s)
    (k0 : Bytes) (keys : List Bytes) (e0 : Outcome) :
    validateLoop C tok (k0 :: keys) e0 = if usable k0 then (shape C tok).err else .err_short_secret := by
  unfold validateLoop
  rw [validate1_eq]
  by_cases hk : k0.length < 32
  · have hu : usable k0 = false := by simp [usable]; omega
    simp [hk, hu]
  · have hu : usable k0 = true := by simp [usable]; omega
    simp only [hk, if_false, hu, if_true]
    cases hs : shape C tok with
    | good r s => exact absurd hs (h r s)
    | noDot => simp [Shape.err]
    | emptyPart => simp [Shape.err]
    | badSig => simp [Shape.err]
    | badRand => simp [Shape.err]

/-- The Go loop decides exactly what the declarative verdict says. -/
theorem validate_eq_verdict (C : Crypto) (g : Bytes) (rot : List Bytes) (tok : Str) :
    validate C g rot tok = verdict C (keyList g rot) tok := by
  unfold validate verdict
  cases hk : keyList g rot with
  | nil => simp
  | cons k0 ks =>
    simp only [List.length_cons, Nat.succ_ne_zero, if_false]
    cases hs : shape C tok with
    | good r s =>
      rw [validateLoop_good C tok r s hs]
      show _ = match List.find? (decides C r s) (k0 :: ks) with
        | none => Outcome.signature_mismatch
        | some k => if usable k = true then Outcome.ok else Outcome.err_short_secret
      cases List.find? (decides C r s) (k0 :: ks) <;> simp
    | noDot => rw [validateLoop_bad C tok (by simp [hs])]; simp [hs]
    | emptyPart => rw [validateLoop_bad C tok (by simp [hs])]; simp [hs]
    | badSig => rw [validateLoop_bad C tok (by simp [hs])]; simp [hs]
    | badRand => rw [validateLoop_bad C tok (by simp [hs])]; simp [hs]

/-! ### the verdict, declaratively -/

theorem decides_of_usable (C : Crypto) (r s k : Bytes) (h : 32 ≤ k.length) :
    decides C r s k = true ↔ C.mac (k.take 32) r = s := by
  have hu : usable k = true := by simp [usable]; omega
  simp [decides, hu, authentic]

theorem verdict_ok_iff (C : Crypto) (keys : List Bytes) (tok : Str) :
    verdict C keys tok = .ok ↔ ∃ r s k, WellFormed C tok r s ∧ Accepting C keys r s k := by
  unfold verdict
  cases keys with
  | nil =>
    simp only [reduceCtorEq, false_iff]
    rintro ⟨r, s, k, _, pre, post, h, _⟩
    cases pre <;> simp at h
  | cons k0 ks =>
    cases hs : shape C tok with
    | good r s =>
      have hw := (shape_good_iff C tok r s).mp hs
      show (match List.find? (decides C r s) (k0 :: ks) with
        | none => Outcome.signature_mismatch
        | some k => if usable k = true then Outcome.ok else Outcome.err_short_secret) = .ok ↔ _
      constructor
      · intro h
        cases hf : List.find? (decides C r s) (k0 :: ks) with
        | none => simp [hf] at h
        | some k =>
          simp only [hf] at h
          have hu : usable k = true := by
            cases hu : usable k <;> simp [hu] at h ⊢
          have hlen : 32 ≤ k.length := by simpa [usable] using hu
          obtain ⟨hp, pre, post, hkeys, hpre⟩ := List.find?_eq_some_iff_append.mp hf
          refine ⟨r, s, k, hw, pre, post, hkeys, ?_, hlen, (decides_of_usable C r s k hlen).mp hp⟩
          intro k' hk'
          have := hpre k' hk'
          simp only [decides, Bool.not_or, Bool.not_not, Bool.and_eq_true, Bool.not_eq_true',
            authentic, beq_eq_false_iff_ne, usable, decide_eq_true_eq] at this
          exact this
      · rintro ⟨r', s', k, hw', pre, post, hkeys, hpre, hlen, hmac⟩
        have hs' := (shape_good_iff C tok r' s').mpr hw'
        rw [hs] at hs'
        cases hs'
        have hf : List.find? (decides C r s) (k0 :: ks) = some k := by
          rw [List.find?_eq_some_iff_append]
          refine ⟨(decides_of_usable C r s k hlen).mpr hmac, pre, post, hkeys, ?_⟩
          intro k' hk'
          obtain ⟨h1, h2⟩ := hpre k' hk'
          have hu : usable k' = true := by simp [usable]; omega
          simp [decides, hu, authentic, h2]
        have hu : usable k = true := by simp [usable]; omega
        simp [hf, hu]
    | noDot | emptyPart | badSig | badRand =>
      constructor
      · intro h
        by_cases hu : usable k0 = true <;> simp [hu, Shape.err] at h
      · rintro ⟨r, s, k, hw, _⟩
        have := (shape_good_iff C tok r s).mpr hw
        rw [hs] at this
        cases this

theorem verdict_short_first (C : Crypto) (k0 : Bytes) (ks : List Bytes) (tok : Str) (h : k0.length < 32) :
    verdict C (k0 :: ks) tok = .err_short_secret := by
  have hu : usable k0 = false := by simp [usable]; omega
  unfold verdict
  cases hs : shape C tok with
  | good r s =>
    simp [hu]
  | noDot | emptyPart | badSig | badRand => simp [hu]

theorem verdict_short_before_match (C : Crypto) (pre post : List Bytes) (k : Bytes) (tok : Str) (r s : Bytes)
    (hw : WellFormed C tok r s) (hk : k.length < 32)
    (hpre : ∀ k' ∈ pre, 32 ≤ k'.length ∧ C.mac (k'.take 32) r ≠ s) :
    verdict C (pre ++ k :: post) tok = .err_short_secret := by
  have hs := (shape_good_iff C tok r s).mpr hw
  have hu : usable k = false := by simp [usable]; omega
  have hf : List.find? (decides C r s) (pre ++ k :: post) = some k := by
    rw [List.find?_eq_some_iff_append]
    refine ⟨by simp [decides, hu], pre, post, rfl, ?_⟩
    intro k' hk'
    obtain ⟨h1, h2⟩ := hpre k' hk'
    have hu' : usable k' = true := by simp [usable]; omega
    simp [decides, hu', authentic, h2]
  unfold verdict
  cases hl : pre ++ k :: post with
  | nil => cases pre <;> simp at hl
  | cons k0 ks =>
    rw [hl] at hf
    simp only [hs]
    show (match List.find? (decides C r s) (k0 :: ks) with
        | none => Outcome.signature_mismatch
        | some k => if usable k = true then Outcome.ok else Outcome.err_short_secret) = _
    simp [hf, hu]

/-- a usable, authenticating key preceded by usable keys only makes the verdict `ok` -/
theorem verdict_ok_of_usable_prefix (C : Crypto) (pre post : List Bytes) (k : Bytes) (tok : Str) (r s : Bytes)
    (hw : WellFormed C tok r s) (hk : 32 ≤ k.length) (hmac : C.mac (k.take 32) r = s)
    (hpre : ∀ k' ∈ pre, 32 ≤ k'.length) :
    verdict C (pre ++ k :: post) tok = .ok := by
  rw [verdict_ok_iff]
  induction pre with
  | nil => exact ⟨r, s, k, hw, [], post, rfl, by simp, hk, hmac⟩
  | cons x xs ih =>
    have hx : 32 ≤ x.length := hpre x (by simp)
    by_cases hm : C.mac (x.take 32) r = s
    · exact ⟨r, s, x, hw, [], xs ++ k :: post, rfl, by simp, hx, hm⟩
    · obtain ⟨r', s', k', hw', p, q, hpq, hp, hk', hm'⟩ := ih (fun k' h => hpre k' (by simp [h]))
      have hs1 := (shape_good_iff C tok r s).mpr hw
      have hs2 := (shape_good_iff C tok r' s').mpr hw'
      rw [hs1] at hs2
      cases hs2
      refine ⟨r, s, k', hw, x :: p, q, by simp [hpq], ?_, hk', hm'⟩
      intro y hy
      cases hy with
      | head => exact ⟨hx, hm⟩
      | tail _ hy => exact hp y hy

theorem wellFormed_unique (C : Crypto) (tok : Str) (r s r' s' : Bytes)
    (h : WellFormed C tok r s) (h' : WellFormed C tok r' s') : r = r' ∧ s = s' := by
  have h1 := (shape_good_iff C tok r s).mpr h
  have h2 := (shape_good_iff C tok r' s').mpr h'
  rw [h1] at h2
  cases h2
  exact ⟨rfl, rfl⟩

/-! ### minting -/

theorem entropyBytes_eq (e : Int) : entropyBytes e = (max e 32).toNat := by
  unfold entropyBytes minimumEntropy
  by_cases h : e < 32
  · have : max e 32 = 32 := by omega
    simp [h, this]
  · have : max e 32 = e := by omega
    simp [h, this]

theorem generate_eq_mint (C : Crypto) (g : Bytes) (e : Int) (rng : Nat → Bytes) :
    generate C g e rng = mint C g e rng := by
  unfold generate mint minimumSecretLength
  by_cases h : g.length < 32
  · have hu : usable g = false := by simp [usable]; omega
    simp [h, hu]
  · have hu : usable g = true := by simp [usable]; omega
    simp [h, hu, layout, signingKey_of_usable g (by omega), entropyBytes_eq]

theorem enc_injective (C : Crypto) (hC : Lawful C) (a b : Bytes) (h : C.enc a = C.enc b) : a = b := by
  have := hC.dec_enc a
  rw [h, hC.dec_enc b] at this
  exact (Option.some.inj this).symm

theorem layout_wellFormed (C : Crypto) (hC : Lawful C) (key r : Bytes) (hr : r ≠ []) :
    WellFormed C (layout C key r).1 r (C.mac key r) :=
  ⟨C.enc r, C.enc (C.mac key r), by simp [layout], hC.enc_nodot r, hC.enc_ne_nil r hr,
    hC.enc_ne_nil _ (hC.mac_ne_nil key r), hC.dec_enc r, hC.dec_enc _⟩

/-! ### `Signature` -/

theorem splitDot_nodot (a : Str) (h : '.' ∉ a) : splitDot a = [a] := by
  induction a with
  | nil => simp [splitDot]
  | cons c cs ih =>
    have hc : c ≠ '.' := fun e => h (by simp [e])
    have hcs : '.' ∉ cs := fun e => h (by simp [e])
    simp [splitDot, hc, ih hcs]

theorem splitDot_append (a b : Str) (h : '.' ∉ a) : splitDot (a ++ '.' :: b) = a :: splitDot b := by
  induction a with
  | nil => simp [splitDot]
  | cons c cs ih =>
    have hc : c ≠ '.' := fun e => h (by simp [e])
    have hcs : '.' ∉ cs := fun e => h (by simp [e])
    simp [splitDot, hc, ih hcs]

theorem splitDot_length (a : Str) : (splitDot a).length = a.count '.' + 1 := by
  induction a with
  | nil => simp [splitDot]
  | cons c cs ih =>
    unfold splitDot
    by_cases hc : c = '.'
    · simp [hc, ih]
    · have hne : splitDot cs ≠ [] := Fosite.Proofs.splitDot_ne_nil cs
      cases hs : splitDot cs with
      | nil => exact absurd hs hne
      | cons x xs =>
        rw [hs] at ih
        have hcnt : List.count '.' (c :: cs) = List.count '.' cs := by
          rw [List.count_cons]; simp [hc]
        rw [hcnt]
        simp only [hc, if_false, List.length_cons] at ih ⊢
        omega

theorem signature_two_parts (a b : Str) (ha : '.' ∉ a) (hb : '.' ∉ b) : signature (a ++ '.' :: b) = b := by
  unfold signature
  rw [splitDot_append a b ha, splitDot_nodot b hb]

theorem signature_eq_spec (tok : Str) : signature tok = signatureOf tok := by
  unfold signatureOf
  cases hc : cutDot tok with
  | none =>
    have hn := (cutDot_none_iff tok).mp hc
    have h0 : tok.count '.' = 0 := List.count_eq_zero.mpr hn
    simp [signature, splitDot_nodot tok hn, h0]
  | some p =>
    obtain ⟨a, b⟩ := p
    obtain ⟨h1, h2⟩ := cutDot_some tok a b hc
    have hcnt : tok.count '.' = b.count '.' + 1 := by
      rw [h1, List.count_append, List.count_eq_zero.mpr h2]
      simp
    have hdrop : (tok.dropWhile (· != '.')).drop 1 = b := by
      have := cutDot_eq_parts tok
      rw [hc] at this
      unfold parts at this
      cases hd : tok.dropWhile (· != '.') with
      | nil => simp [hd] at this
      | cons x xs =>
        simp only [hd, Option.some.injEq, Prod.mk.injEq] at this
        simp [this.2]
    rw [hdrop, hcnt]
    by_cases hb : '.' ∈ b
    · have hpos : 0 < b.count '.' := List.count_pos_iff.mpr hb
      have hlen := splitDot_length b
      have hne : ¬ (b.count '.' + 1 = 1) := by omega
      simp only [hne, if_false]
      unfold signature
      rw [h1, splitDot_append a b h2]
      cases hsb : splitDot b with
      | nil => rfl
      | cons x xs =>
        cases xs with
        | nil => rw [hsb] at hlen; simp at hlen; omega
        | cons y ys => rfl
    · have h0 : b.count '.' = 0 := List.count_eq_zero.mpr hb
      rw [h1, signature_two_parts a b h2 hb]
      simp [h0]

/-! ### prefixes -/

theorem trimPrefix_append (p t : Str) : trimPrefix (p ++ t) p = t := by
  unfold trimPrefix
  have : p.isPrefixOf (p ++ t) = true := List.isPrefixOf_iff_prefix.mpr (List.prefix_append p t)
  simp [this]

theorem trimPrefix_of_not_prefix (p t : Str) (h : ¬ p <+: t) : trimPrefix t p = t := by
  unfold trimPrefix
  have : p.isPrefixOf t = false := by
    cases hp : p.isPrefixOf t
    · rfl
    · exact absurd (List.isPrefixOf_iff_prefix.mp hp) h
  simp [this]

theorem strip_eq_trimPrefix (kind : Kind) (tok : Str) :
    strip kind tok = trimPrefix tok (getPrefix kind.part) := by
  unfold strip trimPrefix getPrefix
  have hp : "_".toList = ['_'] := rfl
  rw [hp]
  by_cases h : ("ory_".toList ++ kind.part ++ ['_']) <+: tok
  · have h1 := List.isPrefixOf_iff_prefix.mpr h
    have h2 := (List.prefix_iff_eq_take.mp h).symm
    simp only [h1, if_true]
    simp only [h2, if_true]
  · have h1 : ("ory_".toList ++ kind.part ++ ['_']).isPrefixOf tok = false := by
      cases hp : ("ory_".toList ++ kind.part ++ ['_']).isPrefixOf tok
      · rfl
      · exact absurd (List.isPrefixOf_iff_prefix.mp hp) h
    have h2 : ¬ (tok.take ("ory_".toList ++ kind.part ++ ['_']).length = "ory_".toList ++ kind.part ++ ['_']) :=
      fun e => h (List.prefix_iff_eq_take.mpr e.symm)
    simp only [h1, Bool.false_eq_true, if_false]
    simp only [h2, if_false]

theorem getPrefix_nodot (kind : Kind) : '.' ∉ getPrefix kind.part := by
  cases kind <;> decide

end Fosite.Proofs.HMAC

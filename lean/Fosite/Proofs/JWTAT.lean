/-
  Lemmas about the JWT access-token model (`Model/JWTAT.lean`) used by `Props/C06b.lean`.
-/
import Fosite.Model.JWTAT
import Fosite.Spec.JWTAT
set_option linter.unusedSimpArgs false
namespace Fosite.Proofs.JWTAT
open Fosite.Model.JWTAT Fosite.Spec.JWTAT

/-! ### the key switch of `Decode` against the specification's "configured key" -/

theorem materialKey_rsa {m : Material} {k : KeyId} :
    materialKey m = some (.rsaPub k) ↔ materialPair m = some (k, .rsa) := by
  cases m with
  | signer pub algs => cases pub <;> simp [materialKey, materialPair]
  | _ => simp [materialKey, materialPair]

theorem materialKey_ec {m : Material} {k : KeyId} :
    materialKey m = some (.ecPub k) ↔ materialPair m = some (k, .ec) := by
  cases m with
  | signer pub algs => cases pub <;> simp [materialKey, materialPair]
  | _ => simp [materialKey, materialPair]

theorem materialKey_none {m : Material} (h : materialKey m = none) : materialPair m = none := by
  cases m with
  | signer pub algs => simp [materialKey] at h
  | _ => simp_all [materialKey, materialPair]

theorem materialKey_unsupported {m : Material} (h : materialKey m = some .unsupported) :
    materialPair m = none := by
  cases m with
  | signer pub algs => cases pub <;> simp_all [materialKey, materialPair]
  | _ => simp_all [materialKey, materialPair]

theorem verificationKey_rsa {cfg : KeyCfg} {k : KeyId} :
    verificationKey cfg = some (.rsaPub k) ↔ configured cfg = some (k, .rsa) := by
  cases cfg <;> simp [verificationKey, configured, materialKey_rsa]

theorem verificationKey_ec {cfg : KeyCfg} {k : KeyId} :
    verificationKey cfg = some (.ecPub k) ↔ configured cfg = some (k, .ec) := by
  cases cfg <;> simp [verificationKey, configured, materialKey_ec]

theorem verificationKey_none {cfg : KeyCfg} (h : verificationKey cfg = none) : configured cfg = none := by
  cases cfg <;> simp_all [verificationKey, configured, materialKey_none]

theorem verificationKey_unsupported {cfg : KeyCfg} (h : verificationKey cfg = some .unsupported) :
    configured cfg = none := by
  cases cfg <;> simp_all [verificationKey, configured, materialKey_unsupported]

/-! ### `verifies` -/

theorem verifies_rsa {k : KeyId} {t : Token} :
    verifies (.rsaPub k) t = true ↔ t.critOK = true ∧ algFamily t.alg = .rsa ∧ t.signedBy = some k := by
  simp only [verifies]
  cases hc : t.critOK <;> by_cases hf : algFamily t.alg = .rsa <;> simp [hf]

theorem verifies_ec {k : KeyId} {t : Token} :
    verifies (.ecPub k) t = true ↔ t.critOK = true ∧ algFamily t.alg = .ec ∧ t.signedBy = some k := by
  simp only [verifies]
  cases hc : t.critOK <;> by_cases hf : algFamily t.alg = .ec <;> simp [hf]

/-- a successful verification: the key is an RSA / ECDSA public key, the algorithm is of the key's
    family, the signature fact names the key, `crit` is fine -/
theorem verifies_true {vk : VKey} {t : Token} (h : verifies vk t = true) :
    ∃ (k : KeyId) (ty : KeyType), (vk = match ty with | .rsa => VKey.rsaPub k | .ec => VKey.ecPub k) ∧
      algFamily t.alg = ty.family ∧ t.signedBy = some k ∧ t.critOK = true := by
  cases vk with
  | unsupported => simp [verifies] at h
  | rsaPub k =>
    obtain ⟨hc, hf, hs⟩ := verifies_rsa.mp h
    exact ⟨k, .rsa, rfl, hf, hs, hc⟩
  | ecPub k =>
    obtain ⟨hc, hf, hs⟩ := verifies_ec.mp h
    exact ⟨k, .ec, rfl, hf, hs, hc⟩

/-- the verdict of `verifies` does not depend on the MAC fact -/
theorem verifies_ignores_mac (vk : VKey) (t : Token) (m : Option KeyId) :
    verifies vk { t with macBy := m } = verifies vk t := by
  cases vk <;> rfl

/-! ### `parseWithClaims`, `decode`, `validate` -/

theorem parseWithClaims_ok_iff {vk : VKey} {t : Token} :
    parseWithClaims vk t = .ok () ↔
      joseParse t = true ∧ t.payloadOK = true ∧ t.nsig = 1 ∧ verifies vk t = true ∧ t.claims.valid = true := by
  unfold parseWithClaims
  constructor
  · intro h
    split at h
    · cases h
    · split at h
      · cases h
      · split at h
        · cases h
        · split at h
          · cases h
          · split at h
            · cases h
            · rename_i h1 h2 h3 h4 h5
              refine ⟨by simpa using h1, by simpa using h2, by simpa using h3, by simpa using h4, by simpa using h5⟩
  · intro ⟨h1, h2, h3, h4, h5⟩
    simp [h1, h2, h3, h4, h5]

theorem decode_ok_iff {cfg : KeyCfg} {t : Token} :
    decode cfg t = .ok () ↔
      ∃ vk, verificationKey cfg = some vk ∧ parseWithClaims vk t = .ok () := by
  unfold decode
  constructor
  · intro h
    split at h
    · cases h
    · rename_i vk hvk
      split at h
      · cases h
      · rename_i hp
        exact ⟨vk, hvk, hp⟩
  · intro ⟨vk, hvk, hp⟩
    rw [hvk]
    simp only
    rw [hp]

theorem validate_ok_iff_decode {cfg : KeyCfg} {t : Token} :
    validate cfg t = .ok ↔ decode cfg t = .ok () := by
  unfold validate
  constructor
  · intro h
    split at h
    · assumption
    · cases h
    · cases h
  · intro h
    rw [h]

theorem joseParse_iff {t : Token} :
    joseParse t = true ↔ (if t.json then t.jsonOK = true else t.nseg = 3 ∧ t.b64OK = true) ∧ t.hdrOK = true := by
  unfold joseParse
  cases hj : t.json <;> simp [and_assoc]

/-- what the strategy accepts, in the specification's words -/
theorem validate_ok_iff {cfg : KeyCfg} {t : Token} : validate cfg t = .ok ↔ AcceptsAnyForm cfg t := by
  rw [validate_ok_iff_decode, decode_ok_iff]
  constructor
  · intro ⟨vk, hvk, hp⟩
    obtain ⟨h1, h2, h3, h4, h5⟩ := parseWithClaims_ok_iff.mp hp
    obtain ⟨hform, hhdr⟩ := joseParse_iff.mp h1
    refine ⟨⟨hform, hhdr, h3, h2⟩, ?_⟩
    obtain ⟨k, ty, hk, hf, hs, hc⟩ := verifies_true h4
    refine ⟨k, ty, ?_, hf, hs, hc, h5⟩
    cases ty with
    | rsa => exact verificationKey_rsa.mp (by rw [hvk, hk])
    | ec => exact verificationKey_ec.mp (by rw [hvk, hk])
  · intro ⟨⟨hform, hhdr, h3, h2⟩, k, ty, hcfg, hf, hs, hc, h5⟩
    cases ty with
    | rsa =>
      refine ⟨.rsaPub k, verificationKey_rsa.mpr hcfg, ?_⟩
      exact parseWithClaims_ok_iff.mpr ⟨joseParse_iff.mpr ⟨hform, hhdr⟩, h2, h3, verifies_rsa.mpr ⟨hc, hf, hs⟩, h5⟩
    | ec =>
      refine ⟨.ecPub k, verificationKey_ec.mpr hcfg, ?_⟩
      exact parseWithClaims_ok_iff.mpr ⟨joseParse_iff.mpr ⟨hform, hhdr⟩, h2, h3, verifies_ec.mpr ⟨hc, hf, hs⟩, h5⟩

/-- the compact-form clause is the only difference between the two predicates -/
theorem accepts_iff_anyForm_compact {cfg : KeyCfg} {t : Token} :
    Accepts cfg t ↔ AcceptsAnyForm cfg t ∧ t.json = false ∧ t.nseg = 3 := by
  unfold Accepts AcceptsAnyForm compactWellFormed anyFormWellFormed
  constructor
  · intro ⟨⟨hj, hn, hb, hh, hs, hp⟩, hst⟩
    refine ⟨⟨⟨?_, hh, hs, hp⟩, hst⟩, hj, hn⟩
    rw [hj]; exact ⟨hn, hb⟩
  · intro ⟨⟨⟨hform, hh, hs, hp⟩, hst⟩, hj, hn⟩
    rw [hj] at hform
    exact ⟨⟨hj, hn, hform.2, hh, hs, hp⟩, hst⟩

theorem signerValidate_ok_iff {cfg : KeyCfg} {t : Token} :
    signerValidate cfg t = .ok () ↔ decode cfg t = .ok () ∧ t.nseg = 3 := by
  unfold signerValidate hasSignaturePart
  constructor
  · intro h
    split at h
    · cases h
    · rename_i hd
      split at h
      · rename_i hn
        exact ⟨hd, by simpa using hn⟩
      · cases h
  · intro ⟨hd, hn⟩
    rw [hd]
    simp [hn]

/-- `decode` ignores the MAC fact altogether -/
theorem decode_ignores_mac (cfg : KeyCfg) (t : Token) (m : Option KeyId) :
    decode cfg { t with macBy := m } = decode cfg t := by
  unfold decode
  cases verificationKey cfg with
  | none => rfl
  | some vk =>
    have : parseWithClaims vk { t with macBy := m } = parseWithClaims vk t := by
      unfold parseWithClaims joseParse
      rw [verifies_ignores_mac]
    simp only [this]

/-! ### error classes -/

theorem decode_plain_iff {cfg : KeyCfg} {t : Token} :
    decode cfg t = .error .plain ↔ verificationKey cfg = none := by
  unfold decode
  constructor
  · intro h
    split at h
    · assumption
    · split at h <;> cases h
  · intro h
    rw [h]

/-- the only bit patterns `parseWithClaims` produces -/
theorem parseWithClaims_error {vk : VKey} {t : Token} {v : VBits} (h : parseWithClaims vk t = .error v) :
    (v = { malformed := true } ∧ (joseParse t = false ∨ (t.payloadOK = true ∧ t.nsig ≠ 1))) ∨
    (v = { claimsInvalid := true } ∧ joseParse t = true ∧ t.payloadOK = false) ∨
    (v = { signatureInvalid := true } ∧ joseParse t = true ∧ t.payloadOK = true ∧ t.nsig = 1 ∧ verifies vk t = false) ∨
    (v = { expired := t.claims.expired, issuedAt := t.claims.iatFuture, notValidYet := t.claims.nbfFuture } ∧
      joseParse t = true ∧ t.payloadOK = true ∧ t.nsig = 1 ∧ verifies vk t = true ∧ t.claims.valid = false) := by
  unfold parseWithClaims at h
  split at h
  · rename_i h1
    injection h with h
    exact Or.inl ⟨h.symm, Or.inl (by simpa using h1)⟩
  · rename_i h1
    split at h
    · rename_i h2
      injection h with h
      exact Or.inr (Or.inl ⟨h.symm, by simpa using h1, by simpa using h2⟩)
    · rename_i h2
      split at h
      · rename_i h3
        injection h with h
        exact Or.inl ⟨h.symm, Or.inr ⟨by simpa using h2, h3⟩⟩
      · rename_i h3
        split at h
        · rename_i h4
          injection h with h
          exact Or.inr (Or.inr (Or.inl ⟨h.symm, by simpa using h1, by simpa using h2, by simpa using h3, by simpa using h4⟩))
        · rename_i h4
          split at h
          · rename_i h5
            injection h with h
            exact Or.inr (Or.inr (Or.inr ⟨h.symm, by simpa using h1, by simpa using h2, by simpa using h3,
              by simpa using h4, by simpa using h5⟩))
          · cases h

theorem matchScopes_eq (cover : String → Bool) (need : List String) :
    matchScopes cover need = scopesCoveredB cover need := by
  induction need with
  | nil => rfl
  | cons s rest ih =>
    unfold matchScopes scopesCoveredB
    simp only [List.all_cons]
    by_cases hs : s = ""
    · simp only [hs, if_true, beq_self_eq_true, Bool.true_or, Bool.true_and]
      exact ih
    · by_cases hc : cover s = true
      · have hb : (s == "") = false := by simpa using hs
        simp only [hs, if_false, hc, Bool.not_true, hb, Bool.or_true, Bool.true_and]
        exact ih
      · have hc' : cover s = false := by simpa using hc
        have hb : (s == "") = false := by simpa using hs
        simp [hs, hc', hb]

theorem scopesCoveredB_iff (cover : String → Bool) (need : List String) :
    scopesCoveredB cover need = true ↔ scopesCovered cover need := by
  unfold scopesCoveredB scopesCovered
  simp only [List.all_eq_true, Bool.or_eq_true, beq_iff_eq]
  constructor
  · intro h s hs hne
    rcases h s hs with h | h
    · exact absurd h hne
    · exact h
  · intro h s hs
    by_cases hne : s = ""
    · exact Or.inl hne
    · exact Or.inr (h s hs hne)

/-! ### every acceptance path -/

/-- the token is accepted by one of the three entry points: the strategy's `ValidateAccessToken`,
    the signer's `Validate`, or introspection (for some required scopes) -/
def AcceptedSomewhere (cfg : KeyCfg) (t : Token) : Prop :=
  validateAccessToken cfg t = .ok ∨ signerValidate cfg t = .ok () ∨
  ∃ cover need sub scopes uh, introspect cfg t cover need = .ok sub scopes uh

theorem introspect_ok_iff {cfg : KeyCfg} {t : Token} {cover : String → Bool} {need : List String}
    {sub : String} {scopes uh : List String} :
    introspect cfg t cover need = .ok sub scopes uh ↔
      validate cfg t = .ok ∧ scopesCovered cover need ∧ sub = t.sub ∧ scopes = t.scopes ∧ uh = t.unsignedHdr := by
  unfold introspect
  constructor
  · intro h
    split at h
    · cases h
    · rename_i hv
      split at h
      · rename_i hm
        injection h with h1 h2 h3
        rw [matchScopes_eq] at hm
        exact ⟨hv, (scopesCoveredB_iff cover need).mp hm, h1.symm, h2.symm, h3.symm⟩
      · cases h
  · intro ⟨hv, hc, h1, h2, h3⟩
    rw [hv]
    have hm : matchScopes cover need = true := by
      rw [matchScopes_eq]; exact (scopesCoveredB_iff cover need).mpr hc
    simp only [hm, if_true]
    rw [h1, h2, h3]

theorem accepted_anyForm {cfg : KeyCfg} {t : Token} (h : AcceptedSomewhere cfg t) : AcceptsAnyForm cfg t := by
  rcases h with h | h | ⟨cover, need, sub, scopes, uh, h⟩
  · exact validate_ok_iff.mp h
  · exact validate_ok_iff.mp (validate_ok_iff_decode.mpr (signerValidate_ok_iff.mp h).1)
  · exact validate_ok_iff.mp (introspect_ok_iff.mp h).1

end Fosite.Proofs.JWTAT

/- `IntrospectToken` (CoreValidator) refines a pure function of the store. -/
import Fosite.Proofs.WPH
import Fosite.Proofs.History
namespace Fosite.Model

/-- the access-token validator as a function of the store -/
def accessVerdict (cfg : Config) (now : Time) (q : IntrospectReq) (st : Store) : Except Err Req :=
  match q.token.sig.bind (alookup st.access) with
  | none => .error .request_unauthorized
  | some r =>
    if !(atCheck1 cfg r q.token.exact now).1 then .error (atCheck1 cfg r q.token.exact now).2
    else if !(atCheck2 cfg r q.token.exact now).1 then .error (atCheck2 cfg r q.token.exact now).2
    else if !matchScopes cfg r.grantedScopes q.scopes then .error .invalid_scope
    else .ok r

/-- both checks pass exactly for an unexpired exact copy, whatever the strategy -/
theorem atChecks_iff (cfg : Config) (r : Req) (exact : Bool) (now : Time) :
    ((atCheck1 cfg r exact now).1 = true ∧ (atCheck2 cfg r exact now).1 = true) ↔
      (accessExpired cfg r now = false ∧ exact = true) := by
  unfold atCheck1 atCheck2
  by_cases hj : cfg.jwtAccess = true
  · simp [hj]; exact And.comm
  · simp [hj]

/-- the refresh-token validator as a function of the store -/
def refreshVerdict (cfg : Config) (now : Time) (q : IntrospectReq) (st : Store) : Except Err Req :=
  match q.token.sig.bind (alookup st.refresh) with
  | none => .error .request_unauthorized
  | some rec =>
    if !rec.active then .error .request_unauthorized
    else if refreshExpired rec.req now then .error .token_expired
    else if !q.token.exact then .error .token_signature_mismatch
    else if !matchScopes cfg rec.req.grantedScopes q.scopes then .error .invalid_scope
    else .ok rec.req

/-- `CoreValidator.IntrospectToken` as a function of the store -/
def introspectPure (cfg : Config) (now : Time) (q : IntrospectReq) (st : Store) : Out :=
  if cfg.disableRefreshIntrospect then
    match accessVerdict cfg now q st with
    | .ok r => .active "access_token" r
    | .error e => .inactive e
  else if q.hint == .refresh then
    match refreshVerdict cfg now q st with
    | .ok r => .active "refresh_token" r
    | .error _ =>
      match accessVerdict cfg now q st with
      | .ok r => .active "access_token" r
      | .error e => .inactive e
  else
    match accessVerdict cfg now q st with
    | .ok r => .active "access_token" r
    | .error e =>
      match refreshVerdict cfg now q st with
      | .ok r => .active "refresh_token" r
      | .error _ => .inactive e

/-- in the plain sequential interpretation a read leaves the state alone and returns the store's answer -/
theorem step_read (rc : RunCfg) (hp : Plain rc) (rs : RState) (c : Call) (hc : c.isTx = false)
    (hro : (rs.ss.exec c).1 = rs.ss) :
    (rs.step rc c).1.ss = rs.ss ∧ (rs.step rc c).2 = (rs.ss.exec c).2 := by
  have h := step_eq_exec rc rs c hc _ rfl (fun e => step_no_fail rc hp.1 rs c e)
  exact ⟨by rw [h.1, hro], h.2.symm⟩

theorem exec_getAccess_snd (ss : SState) (k : Option Nat) :
    (ss.exec (.getAccess k)).2 = match k.bind (alookup ss.store.access) with | none => .notFound | some r => .req r := by
  simp only [SState.exec]
  cases k.bind (alookup ss.store.access) <;> rfl

theorem exec_getRefresh_snd (ss : SState) (k : Option Nat) :
    (ss.exec (.getRefresh k)).2 = match k.bind (alookup ss.store.refresh) with
      | none => .notFound | some rec => if rec.active then .req rec.req else .inactive rec.req := by
  simp only [SState.exec]
  cases k.bind (alookup ss.store.refresh) with
  | none => rfl
  | some rec => cases h : rec.active <;> simp [h]

theorem run_introspectAccess (rc : RunCfg) (hp : Plain rc) (cfg : Config) (now : Time) (q : IntrospectReq) (rs : RState) :
    (run rc rs (introspectAccess cfg now q).toProg).1.ss = rs.ss ∧
    (run rc rs (introspectAccess cfg now q).toProg).2 = accessVerdict cfg now q rs.ss.store := by
  obtain ⟨hss, hres⟩ := step_read rc hp rs (.getAccess q.token.sig) rfl (exec_getAccess_fst _ _)
  rw [exec_getAccess_snd] at hres
  have key := (wp_run rc (introspectAccess cfg now q).toProg
    (fun rs' r => rs'.ss = rs.ss ∧ r = accessVerdict cfg now q rs.ss.store) rs).mp
  apply key
  rw [wp_iff_wpH]
  unfold introspectAccess accessVerdict
  simp only [wpH_bind, wpH_expectReq, wpH_guard, wpH_pure, retErr, wp_ret]
  cases hl : q.token.sig.bind (alookup rs.ss.store.access) with
  | none =>
    rw [hl] at hres
    refine ⟨fun x hx => (by rw [hres] at hx; cases hx), fun _ => ⟨hss, rfl⟩⟩
  | some r =>
    rw [hl] at hres
    simp only at hres
    refine ⟨fun x hx => ?_, fun hne => absurd hres (hne r)⟩
    rw [hres] at hx; cases hx
    by_cases h1 : (atCheck1 cfg r q.token.exact now).1 = true
    · by_cases h2 : (atCheck2 cfg r q.token.exact now).1 = true
      · by_cases h3 : matchScopes cfg r.grantedScopes q.scopes = true
        · simp [h1, h2, h3, hss]
        · simp [h1, h2, h3, hss]
      · simp [h1, h2, hss]
    · simp [h1, hss]

theorem run_introspectRefresh (rc : RunCfg) (hp : Plain rc) (cfg : Config) (now : Time) (q : IntrospectReq) (rs : RState) :
    (run rc rs (introspectRefresh cfg now q).toProg).1.ss = rs.ss ∧
    (run rc rs (introspectRefresh cfg now q).toProg).2 = refreshVerdict cfg now q rs.ss.store := by
  obtain ⟨hss, hres⟩ := step_read rc hp rs (.getRefresh q.token.sig) rfl (exec_getRefresh_fst _ _)
  rw [exec_getRefresh_snd] at hres
  have key := (wp_run rc (introspectRefresh cfg now q).toProg
    (fun rs' r => rs'.ss = rs.ss ∧ r = refreshVerdict cfg now q rs.ss.store) rs).mp
  apply key
  rw [wp_iff_wpH]
  unfold introspectRefresh refreshVerdict
  simp only [wpH_bind, wpH_expectReq, wpH_guard, wpH_pure, retErr, wp_ret]
  cases hl : q.token.sig.bind (alookup rs.ss.store.refresh) with
  | none =>
    rw [hl] at hres
    refine ⟨fun x hx => (by rw [hres] at hx; cases hx), fun _ => ⟨hss, rfl⟩⟩
  | some rec =>
    rw [hl] at hres
    simp only at hres
    by_cases ha : rec.active = true
    · simp only [ha, if_true] at hres
      refine ⟨fun x hx => ?_, fun hne => absurd hres (hne rec.req)⟩
      rw [hres] at hx; cases hx
      by_cases h1 : refreshExpired rec.req now = true
      · simp [ha, h1, hss]
      · by_cases h2 : q.token.exact = true
        · by_cases h3 : matchScopes cfg rec.req.grantedScopes q.scopes = true
          · simp [ha, h1, h2, h3, hss]
          · simp [ha, h1, h2, h3, hss]
        · simp [ha, h1, h2, hss]
    · simp only [ha, Bool.false_eq_true, if_false] at hres
      refine ⟨fun x hx => (by rw [hres] at hx; cases hx), fun _ => ⟨hss, by simp [ha]⟩⟩

/-- **Introspection refines a pure function of the store and changes nothing.** -/
theorem run_introspectProg (rc : RunCfg) (hp : Plain rc) (cfg : Config) (now : Time) (q : IntrospectReq) (rs : RState) :
    (run rc rs (introspectProg cfg now q)).1.ss = rs.ss ∧
    (run rc rs (introspectProg cfg now q)).2 = introspectPure cfg now q rs.ss.store := by
  have bindP : ∀ {α β} (p : Prog α) (f : α → Prog β), (p >>= f) = p.bind f := fun _ _ => rfl
  unfold introspectProg introspectPure attempt
  by_cases hd : cfg.disableRefreshIntrospect = true
  · simp only [hd, if_true, bindP, run_bind]
    obtain ⟨h1, h2⟩ := run_introspectAccess rc hp cfg now q rs
    rw [h2]
    cases accessVerdict cfg now q rs.ss.store <;> exact ⟨h1, rfl⟩
  · simp only [hd, Bool.false_eq_true, if_false]
    by_cases hh : (q.hint == Hint.refresh) = true
    · simp only [hh, if_true, bindP, run_bind]
      obtain ⟨h1, h2⟩ := run_introspectRefresh rc hp cfg now q rs
      rw [h2]
      cases hv : refreshVerdict cfg now q rs.ss.store with
      | ok r => exact ⟨h1, rfl⟩
      | error e =>
        simp only [bindP, run_bind]
        obtain ⟨h3, h4⟩ := run_introspectAccess rc hp cfg now q (run rc rs (introspectRefresh cfg now q).toProg).1
        rw [h4, h1]
        cases accessVerdict cfg now q rs.ss.store <;> exact ⟨h3.trans h1, rfl⟩
    · simp only [hh, Bool.false_eq_true, if_false, bindP, run_bind]
      obtain ⟨h1, h2⟩ := run_introspectAccess rc hp cfg now q rs
      rw [h2]
      cases hv : accessVerdict cfg now q rs.ss.store with
      | ok r => exact ⟨h1, rfl⟩
      | error e =>
        simp only [bindP, run_bind]
        obtain ⟨h3, h4⟩ := run_introspectRefresh rc hp cfg now q (run rc rs (introspectAccess cfg now q).toProg).1
        rw [h4, h1]
        cases refreshVerdict cfg now q rs.ss.store <;> exact ⟨h3.trans h1, rfl⟩

/-! ### the HTTP endpoint: caller authentication in front of `IntrospectToken` -/

/-- what the endpoint says about the inspected token once the caller is accepted -/
def inspectPure (cfg : Config) (now : Time) (q : IntrospectReq) (st : Store) : Out :=
  match introspectPure cfg now q st with
  | .active use x => .active use x
  | _ => .inactive .token_inactive

/-- `NewIntrospectionRequest` as a function of the state -/
def introspectEndpointPure (cfg : Config) (now : Time) (r : IntrospectEndpointReq) (ss : SState) : Out :=
  match r.caller with
  | .bearer tok identical =>
    if identical then .err .request_unauthorized else
    match introspectPure cfg now { token := tok, hint := .access, scopes := [] } ss.store with
    | .active use _ => if use != "access_token" then .err .request_unauthorized else inspectPure cfg now r.q ss.store
    | _ => .err .request_unauthorized
  | .basic id secretOk =>
    match ss.clients.find? (fun c => c.id == id) with
    | some _ => if secretOk then inspectPure cfg now r.q ss.store else .err .request_unauthorized
    | none => .err .request_unauthorized
  | .anonymous => .err .request_unauthorized

/-- **The introspection endpoint refines a pure function of the state and changes nothing.** -/
theorem run_introspectEndpointProg (rc : RunCfg) (hp : Plain rc) (cfg : Config) (now : Time)
    (r : IntrospectEndpointReq) (rs : RState) :
    (run rc rs (introspectEndpointProg cfg now r)).1.ss = rs.ss ∧
    (run rc rs (introspectEndpointProg cfg now r)).2 = introspectEndpointPure cfg now r rs.ss := by
  have bindP : ∀ {α β} (p : Prog α) (f : α → Prog β), (p >>= f) = p.bind f := fun _ _ => rfl
  have hinspect : ∀ rs' : RState, rs'.ss = rs.ss →
      (run rc rs' (do
        match ← introspectProg cfg now r.q with
        | .active use x => return .active use x
        | _ => return Out.inactive .token_inactive : Prog Out)).1.ss = rs.ss ∧
      (run rc rs' (do
        match ← introspectProg cfg now r.q with
        | .active use x => return .active use x
        | _ => return Out.inactive .token_inactive : Prog Out)).2 = inspectPure cfg now r.q rs.ss.store := by
    intro rs' hss
    obtain ⟨h1, h2⟩ := run_introspectProg rc hp cfg now r.q rs'
    simp only [bindP, run_bind]
    rw [h2, hss]
    unfold inspectPure
    cases introspectPure cfg now r.q rs.ss.store <;> exact ⟨by rw [← hss]; exact h1, rfl⟩
  unfold introspectEndpointProg introspectEndpointPure
  cases hc : r.caller with
  | bearer tok identical =>
    simp only
    by_cases hi : identical = true
    · simp only [hi, if_true]; exact ⟨rfl, rfl⟩
    · simp only [hi, Bool.false_eq_true, if_false, bindP, run_bind]
      obtain ⟨h1, h2⟩ := run_introspectProg rc hp cfg now { token := tok, hint := .access, scopes := [] } rs
      rw [h2]
      cases hv : introspectPure cfg now { token := tok, hint := .access, scopes := [] } rs.ss.store with
      | active use x =>
        simp only
        by_cases hu : (use != "access_token") = true
        · simp only [hu, if_true]; exact ⟨h1, rfl⟩
        · simp only [hu, Bool.false_eq_true, if_false]
          exact hinspect _ h1
      | _ => exact ⟨h1, rfl⟩
  | basic id secretOk =>
    simp only [bindP, Prog.bind, call, run_call]
    obtain ⟨h1, h2⟩ := step_read rc hp rs (.getClient id) rfl (exec_getClient_fst _ _)
    rw [h2]
    simp only [SState.exec]
    cases hf : rs.ss.clients.find? (fun c => c.id == id) with
    | none => exact ⟨h1, rfl⟩
    | some c =>
      simp only
      by_cases hs : secretOk = true
      · simp only [hs, if_true]; exact hinspect _ h1
      · simp only [hs, Bool.false_eq_true, if_false]; exact ⟨h1, rfl⟩
  | anonymous => exact ⟨rfl, rfl⟩

end Fosite.Model

/- `IntrospectToken` (CoreValidator) refines a pure function of the store. -/
import Fosite.Proofs.WPH
import Fosite.Proofs.History
namespace Fosite.Model

/-- the access-token validator as a function of the store -/
def accessVerdict (cfg : Config) (now : Time) (q : IntrospectReq) (st : Store) : Except Err Req :=
  match q.token.sig.bind (alookup st.access) with
  | none => .error .request_unauthorized
  | some r =>
    if expiredAt r.sess.expAccess r.requestedAt cfg.atLife now then .error .token_expired
    else if !q.token.exact then .error .token_signature_mismatch
    else if !matchScopes cfg r.grantedScopes q.scopes then .error .invalid_scope
    else .ok r

/-- the refresh-token validator as a function of the store -/
def refreshVerdict (cfg : Config) (now : Time) (q : IntrospectReq) (st : Store) : Except Err Req :=
  match q.token.sig.bind (alookup st.refresh) with
  | none => .error .request_unauthorized
  | some rec =>
    if !rec.active then .error .request_unauthorized
    else if refreshExpired rec.req now then .error .token_expired
    else if !q.token.exact then .error .token_signature_mismatch
    else if !matchScopes cfg rec.req.grantedScopes q.scopes then .error .invalid_scope
    else .ok rec.req

/-- `CoreValidator.IntrospectToken` as a function of the store -/
def introspectPure (cfg : Config) (now : Time) (q : IntrospectReq) (st : Store) : Out :=
  if cfg.disableRefreshIntrospect then
    match accessVerdict cfg now q st with
    | .ok r => .active "access_token" r
    | .error e => .inactive e
  else if q.hint == .refresh then
    match refreshVerdict cfg now q st with
    | .ok r => .active "refresh_token" r
    | .error _ =>
      match accessVerdict cfg now q st with
      | .ok r => .active "access_token" r
      | .error e => .inactive e
  else
    match accessVerdict cfg now q st with
    | .ok r => .active "access_token" r
    | .error e =>
      match refreshVerdict cfg now q st with
      | .ok r => .active "refresh_token" r
      | .error _ => .inactive e

/-- in the plain sequential interpretation a read leaves the state alone and returns the store's answer -/
theorem step_read (rc : RunCfg) (hp : Plain rc) (rs : RState) (c : Call) (hc : c.isTx = false)
    (hro : (rs.ss.exec c).1 = rs.ss) :
    (rs.step rc c).1.ss = rs.ss ∧ (rs.step rc c).2 = (rs.ss.exec c).2 := by
  have h := step_eq_exec rc rs c hc _ rfl (fun e => step_no_fail rc hp.1 rs c e)
  exact ⟨by rw [h.1, hro], h.2.symm⟩

theorem exec_getAccess_snd (ss : SState) (k : Option Nat) :
    (ss.exec (.getAccess k)).2 = match k.bind (alookup ss.store.access) with | none => .notFound | some r => .req r := by
  simp only [SState.exec]
  cases k.bind (alookup ss.store.access) <;> rfl

theorem exec_getRefresh_snd (ss : SState) (k : Option Nat) :
    (ss.exec (.getRefresh k)).2 = match k.bind (alookup ss.store.refresh) with
      | none => .notFound | some rec => if rec.active then .req rec.req else .inactive rec.req := by
  simp only [SState.exec]
  cases k.bind (alookup ss.store.refresh) with
  | none => rfl
  | some rec => cases h : rec.active <;> simp [h]

theorem run_introspectAccess (rc : RunCfg) (hp : Plain rc) (cfg : Config) (now : Time) (q : IntrospectReq) (rs : RState) :
    (run rc rs (introspectAccess cfg now q).toProg).1.ss = rs.ss ∧
    (run rc rs (introspectAccess cfg now q).toProg).2 = accessVerdict cfg now q rs.ss.store := by
  obtain ⟨hss, hres⟩ := step_read rc hp rs (.getAccess q.token.sig) rfl (exec_getAccess_fst _ _)
  rw [exec_getAccess_snd] at hres
  have key := (wp_run rc (introspectAccess cfg now q).toProg
    (fun rs' r => rs'.ss = rs.ss ∧ r = accessVerdict cfg now q rs.ss.store) rs).mp
  apply key
  rw [wp_iff_wpH]
  unfold introspectAccess accessVerdict
  simp only [wpH_bind, wpH_expectReq, wpH_guard, wpH_pure, retErr, wp_ret]
  cases hl : q.token.sig.bind (alookup rs.ss.store.access) with
  | none =>
    rw [hl] at hres
    refine ⟨fun x hx => (by rw [hres] at hx; cases hx), fun _ => ⟨hss, rfl⟩⟩
  | some r =>
    rw [hl] at hres
    simp only at hres
    refine ⟨fun x hx => ?_, fun hne => absurd hres (hne r)⟩
    rw [hres] at hx; cases hx
    by_cases h1 : expiredAt r.sess.expAccess r.requestedAt cfg.atLife now = true
    · simp [h1, hss]
    · by_cases h2 : q.token.exact = true
      · by_cases h3 : matchScopes cfg r.grantedScopes q.scopes = true
        · simp [h1, h2, h3, hss]
        · simp [h1, h2, h3, hss]
      · simp [h1, h2, hss]

theorem run_introspectRefresh (rc : RunCfg) (hp : Plain rc) (cfg : Config) (now : Time) (q : IntrospectReq) (rs : RState) :
    (run rc rs (introspectRefresh cfg now q).toProg).1.ss = rs.ss ∧
    (run rc rs (introspectRefresh cfg now q).toProg).2 = refreshVerdict cfg now q rs.ss.store := by
  obtain ⟨hss, hres⟩ := step_read rc hp rs (.getRefresh q.token.sig) rfl (exec_getRefresh_fst _ _)
  rw [exec_getRefresh_snd] at hres
  have key := (wp_run rc (introspectRefresh cfg now q).toProg
    (fun rs' r => rs'.ss = rs.ss ∧ r = refreshVerdict cfg now q rs.ss.store) rs).mp
  apply key
  rw [wp_iff_wpH]
  unfold introspectRefresh refreshVerdict
  simp only [wpH_bind, wpH_expectReq, wpH_guard, wpH_pure, retErr, wp_ret]
  cases hl : q.token.sig.bind (alookup rs.ss.store.refresh) with
  | none =>
    rw [hl] at hres
    refine ⟨fun x hx => (by rw [hres] at hx; cases hx), fun _ => ⟨hss, rfl⟩⟩
  | some rec =>
    rw [hl] at hres
    simp only at hres
    by_cases ha : rec.active = true
    · simp only [ha, if_true] at hres
      refine ⟨fun x hx => ?_, fun hne => absurd hres (hne rec.req)⟩
      rw [hres] at hx; cases hx
      by_cases h1 : refreshExpired rec.req now = true
      · simp [ha, h1, hss]
      · by_cases h2 : q.token.exact = true
        · by_cases h3 : matchScopes cfg rec.req.grantedScopes q.scopes = true
          · simp [ha, h1, h2, h3, hss]
          · simp [ha, h1, h2, h3, hss]
        · simp [ha, h1, h2, hss]
    · simp only [ha, Bool.false_eq_true, if_false] at hres
      refine ⟨fun x hx => (by rw [hres] at hx; cases hx), fun _ => ⟨hss, by simp [ha]⟩⟩

/-- **Introspection refines a pure function of the store and changes nothing.** -/
theorem run_introspectProg (rc : RunCfg) (hp : Plain rc) (cfg : Config) (now : Time) (q : IntrospectReq) (rs : RState) :
    (run rc rs (introspectProg cfg now q)).1.ss = rs.ss ∧
    (run rc rs (introspectProg cfg now q)).2 = introspectPure cfg now q rs.ss.store := by
  have bindP : ∀ {α β} (p : Prog α) (f : α → Prog β), (p >>= f) = p.bind f := fun _ _ => rfl
  unfold introspectProg introspectPure attempt
  by_cases hd : cfg.disableRefreshIntrospect = true
  · simp only [hd, if_true, bindP, run_bind]
    obtain ⟨h1, h2⟩ := run_introspectAccess rc hp cfg now q rs
    rw [h2]
    cases accessVerdict cfg now q rs.ss.store <;> exact ⟨h1, rfl⟩
  · simp only [hd, Bool.false_eq_true, if_false]
    by_cases hh : (q.hint == Hint.refresh) = true
    · simp only [hh, if_true, bindP, run_bind]
      obtain ⟨h1, h2⟩ := run_introspectRefresh rc hp cfg now q rs
      rw [h2]
      cases hv : refreshVerdict cfg now q rs.ss.store with
      | ok r => exact ⟨h1, rfl⟩
      | error e =>
        simp only [bindP, run_bind]
        obtain ⟨h3, h4⟩ := run_introspectAccess rc hp cfg now q (run rc rs (introspectRefresh cfg now q).toProg).1
        rw [h4, h1]
        cases accessVerdict cfg now q rs.ss.store <;> exact ⟨h3.trans h1, rfl⟩
    · simp only [hh, Bool.false_eq_true, if_false, bindP, run_bind]
      obtain ⟨h1, h2⟩ := run_introspectAccess rc hp cfg now q rs
      rw [h2]
      cases hv : accessVerdict cfg now q rs.ss.store with
      | ok r => exact ⟨h1, rfl⟩
      | error e =>
        simp only [bindP, run_bind]
        obtain ⟨h3, h4⟩ := run_introspectRefresh rc hp cfg now q (run rc rs (introspectAccess cfg now q).toProg).1
        rw [h4, h1]
        cases refreshVerdict cfg now q rs.ss.store <;> exact ⟨h3.trans h1, rfl⟩

end Fosite.Model

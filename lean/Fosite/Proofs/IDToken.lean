/-
  Lemmas about the ID-token model (C14): claim-map lookups, what `ToMap` emits for every reserved key, the
  success characterisation of `generateIDToken`, `wrap64`, `unique`.
-/
import Fosite.Model.IDToken
import Fosite.Spec.IDToken
namespace Fosite.Proofs.IDToken
open Fosite.Model.IDToken Fosite.Spec.IDToken

/-! ## claim maps -/

theorem del_cons (k1 : String) (v : Val) (rest : ClaimMap) (k : String) :
    ClaimMap.del ((k1, v) :: rest) k = if k1 = k then ClaimMap.del rest k else (k1, v) :: ClaimMap.del rest k := by
  by_cases h : k1 = k <;> simp [ClaimMap.del, h]

theorem get_cons (k1 : String) (v : Val) (rest : ClaimMap) (k : String) :
    ClaimMap.get ((k1, v) :: rest) k = if k1 = k then some v else ClaimMap.get rest k := rfl

theorem get_del_same (m : ClaimMap) (k : String) : (m.del k).get k = none := by
  induction m with
  | nil => rfl
  | cons kv rest ih =>
    obtain ⟨k', v⟩ := kv
    rw [del_cons]
    by_cases h : k' = k
    · rw [if_pos h]; exact ih
    · rw [if_neg h, get_cons, if_neg h]; exact ih

theorem get_del_other (m : ClaimMap) {k k' : String} (hne : k' ≠ k) : (m.del k').get k = m.get k := by
  induction m with
  | nil => rfl
  | cons kv rest ih =>
    obtain ⟨k1, v⟩ := kv
    rw [del_cons, get_cons]
    by_cases h : k1 = k'
    · rw [if_pos h, ih]
      have : ¬ k1 = k := by intro h2; exact hne (h.symm.trans h2)
      rw [if_neg this]
    · rw [if_neg h, get_cons, ih]

theorem get_put_same (m : ClaimMap) (k : String) (v : Option Val) : (m.put k v).get k = v := by
  cases v with
  | none => simp [ClaimMap.put, get_del_same]
  | some x => simp [ClaimMap.put, ClaimMap.get]

theorem get_put_other (m : ClaimMap) {k k' : String} (v : Option Val) (hne : k' ≠ k) :
    (m.put k' v).get k = m.get k := by
  cases v with
  | none => simp [ClaimMap.put, get_del_other m hne]
  | some x => simp [ClaimMap.put, ClaimMap.get, hne, get_del_other m hne]

/-! ## what `ToMap` emits for each reserved key — independent of `Extra` -/

/-- the value `ToMap` gives a reserved key (`none` = the key is deleted) -/
def reservedValue (fresh : String) (c : Claims) (k : String) : Option Val :=
  if k = "sub" then optStr c.sub
  else if k = "iss" then optStr c.iss
  else if k = "jti" then some (.str (if c.jti ≠ "" then c.jti else fresh))
  else if k = "aud" then some (.strs c.aud)
  else if k = "iat" then optTime c.iat
  else if k = "exp" then optTime c.exp
  else if k = "rat" then optTime c.rat
  else if k = "nonce" then optStr c.nonce
  else if k = "at_hash" then optStr c.atHash
  else if k = "c_hash" then optStr c.cHash
  else if k = "auth_time" then optTime c.authTime
  else if k = "acr" then optStr c.acr
  else if k = "amr" then optList c.amr
  else none

theorem toMap_sub (u : String) (c : Claims) : (toMap u c).get "sub" = optStr c.sub := by
  simp [toMap, get_put_other, get_put_same]
theorem toMap_iss (u : String) (c : Claims) : (toMap u c).get "iss" = optStr c.iss := by
  simp [toMap, get_put_other, get_put_same]
theorem toMap_jti (u : String) (c : Claims) :
    (toMap u c).get "jti" = some (.str (if c.jti ≠ "" then c.jti else u)) := by
  simp [toMap, get_put_other, get_put_same]
theorem toMap_aud (u : String) (c : Claims) : (toMap u c).get "aud" = some (.strs c.aud) := by
  simp [toMap, get_put_other, get_put_same]
theorem toMap_iat (u : String) (c : Claims) : (toMap u c).get "iat" = optTime c.iat := by
  simp [toMap, get_put_other, get_put_same]
theorem toMap_exp (u : String) (c : Claims) : (toMap u c).get "exp" = optTime c.exp := by
  simp [toMap, get_put_other, get_put_same]
theorem toMap_rat (u : String) (c : Claims) : (toMap u c).get "rat" = optTime c.rat := by
  simp [toMap, get_put_other, get_put_same]
theorem toMap_nonce (u : String) (c : Claims) : (toMap u c).get "nonce" = optStr c.nonce := by
  simp [toMap, get_put_other, get_put_same]
theorem toMap_at_hash (u : String) (c : Claims) : (toMap u c).get "at_hash" = optStr c.atHash := by
  simp [toMap, get_put_other, get_put_same]
theorem toMap_c_hash (u : String) (c : Claims) : (toMap u c).get "c_hash" = optStr c.cHash := by
  simp [toMap, get_put_other, get_put_same]
theorem toMap_auth_time (u : String) (c : Claims) : (toMap u c).get "auth_time" = optTime c.authTime := by
  simp [toMap, get_put_other, get_put_same]
theorem toMap_acr (u : String) (c : Claims) : (toMap u c).get "acr" = optStr c.acr := by
  simp [toMap, get_put_other, get_put_same]
theorem toMap_amr (u : String) (c : Claims) : (toMap u c).get "amr" = optList c.amr := by
  simp [toMap, get_put_other, get_put_same]

theorem toMap_reserved (u : String) (c : Claims) (k : String) (hk : k ∈ reservedKeys) :
    (toMap u c).get k = reservedValue u c k := by
  simp only [reservedKeys, List.mem_cons, List.not_mem_nil, or_false] at hk
  rcases hk with h | h | h | h | h | h | h | h | h | h | h | h | h <;> subst h
  · rw [toMap_sub]; rfl
  · rw [toMap_iss]; rfl
  · rw [toMap_jti]; rfl
  · rw [toMap_aud]; rfl
  · rw [toMap_iat]; rfl
  · rw [toMap_exp]; rfl
  · rw [toMap_rat]; rfl
  · rw [toMap_nonce]; rfl
  · rw [toMap_at_hash]; rfl
  · rw [toMap_c_hash]; rfl
  · rw [toMap_auth_time]; rfl
  · rw [toMap_acr]; rfl
  · rw [toMap_amr]; rfl

/-- a key `ToMap` does not own comes out of `Extra` unchanged -/
theorem toMap_extra (u : String) (c : Claims) (k : String) (hk : k ∉ reservedKeys) :
    (toMap u c).get k = ClaimMap.get c.extra k := by
  simp only [reservedKeys, List.mem_cons, List.not_mem_nil, or_false, not_or] at hk
  obtain ⟨h1, h2, h3, h4, h5, h6, h7, h8, h9, h10, h11, h12, h13⟩ := hk
  simp only [toMap]
  rw [get_put_other _ _ (Ne.symm h13), get_put_other _ _ (Ne.symm h12), get_put_other _ _ (Ne.symm h11),
    get_put_other _ _ (Ne.symm h10), get_put_other _ _ (Ne.symm h9), get_put_other _ _ (Ne.symm h8),
    get_put_other _ _ (Ne.symm h7), get_put_other _ _ (Ne.symm h6), get_put_other _ _ (Ne.symm h5),
    get_put_other _ _ (Ne.symm h4), get_put_other _ _ (Ne.symm h3), get_put_other _ _ (Ne.symm h2),
    get_put_other _ _ (Ne.symm h1)]

/-! ## `generateIDToken`: success characterisation -/

theorem requestChecks_ok {now : Int} {f : Form} {c c1 : Claims} (h : requestChecks now f c = .ok c1) :
    c1 = acrDefault f c ∧ ¬ c.authTime > now + 5 * second ∧
    maxAgeCheck (maxAgeOf f) c = none ∧
    ¬ (f.prompt ≠ "" ∧ c.authTime = zeroTime) ∧ promptSwitch f.prompt c = none ∧
    hintCheck f.hint (acrDefault f c) = none := by
  unfold requestChecks at h
  split at h
  · cases h
  · split at h
    · cases h
    · split at h
      · cases h
      · split at h
        · cases h
        · split at h
          · cases h
          · rename_i h1 _ h2 h3 _ h4 _ h5
            injection h with h
            exact ⟨h.symm, h1, h2, h3, h4, h5⟩

theorem maxAgeCheck_err {n : Int} {c : Claims} {e : RFCErr} (h : maxAgeCheck n c = some e) : e = .serverError := by
  unfold maxAgeCheck at h
  repeat' split at h
  all_goals first | (injection h with h; exact h.symm) | cases h

theorem promptSwitch_err {p : String} {c : Claims} {e : RFCErr} (h : promptSwitch p c = some e) :
    e = .serverError := by
  unfold promptSwitch at h
  repeat' split at h
  all_goals first | (injection h with h; exact h.symm) | cases h

theorem hintCheck_err {hint : Hint} {c : Claims} {e : RFCErr} (h : hintCheck hint c = some e) :
    e = .serverError := by
  unfold hintCheck at h
  repeat' split at h
  all_goals first | (injection h with h; exact h.symm) | cases h

/-- every refusal of the request block is a server_error -/
theorem requestChecks_err {now : Int} {f : Form} {c : Claims} {e : RFCErr}
    (h : requestChecks now f c = .error e) : e = .serverError := by
  unfold requestChecks at h
  split at h
  · injection h with h; exact h.symm
  · split at h
    · next e' he => injection h with h; rw [← h]; exact maxAgeCheck_err he
    · split at h
      · injection h with h; exact h.symm
      · split at h
        · next e' he => injection h with h; rw [← h]; exact promptSwitch_err he
        · split at h
          · next e' he => injection h with h; rw [← h]; exact hintCheck_err he
          · cases h

/-- if the request block cannot succeed, `generateIDToken` answers server_error -/
theorem generate_request_refused (cfg : Cfg) (now : Int) (L : Int) (cid : String) (f : Form) (c : Claims)
    (hg : f.grantType ≠ "refresh_token") (hno : ∀ c1, requestChecks now f c ≠ .ok c1) :
    generateIDToken cfg now L cid f c = .error .serverError := by
  unfold generateIDToken
  simp only
  by_cases hs : c.sub = ""
  · rw [if_pos hs]
  · rw [if_neg hs, if_pos hg]
    cases hrc : requestChecks now f c with
    | error e => rw [requestChecks_err hrc]
    | ok c1 => exact absurd hrc (hno c1)

/-- the claims object `generateIDToken` leaves behind (and signs) when it succeeds -/
def minted (cfg : Cfg) (now : Int) (lifespan : Int) (clientId : String) (f : Form) (c : Claims) : Claims :=
  finish now clientId
    (setNonce (if f.nonce.length = 0 then none else some f.nonce)
      (issDefault cfg (authTimeDefault now
        (expDefault now (if lifespan = 0 then defaultExpiryTime else lifespan)
          (if f.grantType ≠ "refresh_token" then acrDefault f c else c)))))

theorem generate_ok {cfg : Cfg} {now : Int} {L : Int} {cid : String} {f : Form} {c c' : Claims}
    (h : generateIDToken cfg now L cid f c = .ok c') :
    c.sub ≠ "" ∧
    (f.grantType ≠ "refresh_token" → requestChecks now f c = .ok (acrDefault f c)) ∧
    ¬ (expDefault now (if L = 0 then defaultExpiryTime else L)
        (if f.grantType ≠ "refresh_token" then acrDefault f c else c)).exp < now ∧
    (f.nonce.length ≠ 0 → ¬ (f.nonce.length : Int) < cfg.minEntropy) ∧
    c' = minted cfg now L cid f c := by
  unfold generateIDToken at h
  simp only at h
  unfold minted
  generalize (if L = 0 then defaultExpiryTime else L) = L' at h ⊢
  split at h
  · cases h
  · rename_i hsub
    split at h
    · cases h
    · rename_i c1 hreq
      split at h
      · cases h
      · rename_i hexp
        split at h
        · cases h
        · rename_i n hn
          injection h with h
          by_cases hg : f.grantType ≠ "refresh_token"
          · rw [if_pos hg] at hreq
            have hc1 := (requestChecks_ok hreq).1
            subst hc1
            unfold nonceStep at hn
            split at hn
            · rename_i h0
              injection hn with hn
              subst hn
              refine ⟨hsub, fun _ => hreq, ?_, fun h0' => absurd h0 h0', ?_⟩
              · rw [if_pos hg]; exact hexp
              · rw [← h, if_pos hg, if_pos h0]
            · rename_i h0
              split at hn
              · cases hn
              · rename_i hlen
                injection hn with hn
                subst hn
                refine ⟨hsub, fun _ => hreq, ?_, fun _ => hlen, ?_⟩
                · rw [if_pos hg]; exact hexp
                · rw [← h, if_pos hg, if_neg h0]
          · rw [if_neg hg] at hreq
            injection hreq with hreq
            subst hreq
            unfold nonceStep at hn
            split at hn
            · rename_i h0
              injection hn with hn
              subst hn
              refine ⟨hsub, fun hg' => absurd hg' hg, ?_, fun h0' => absurd h0 h0', ?_⟩
              · rw [if_neg hg]; exact hexp
              · rw [← h, if_neg hg, if_pos h0]
            · rename_i h0
              split at hn
              · cases hn
              · rename_i hlen
                injection hn with hn
                subst hn
                refine ⟨hsub, fun hg' => absurd hg' hg, ?_, fun _ => hlen, ?_⟩
                · rw [if_neg hg]; exact hexp
                · rw [← h, if_neg hg, if_neg h0]

/-! ## fields of the minted claims -/

theorem minted_sub (cfg : Cfg) (now : Int) (L : Int) (cid : String) (f : Form) (c : Claims) :
    (minted cfg now L cid f c).sub = c.sub := by
  unfold minted finish setNonce issDefault authTimeDefault expDefault acrDefault
  repeat' split
  all_goals rfl

theorem minted_extra (cfg : Cfg) (now : Int) (L : Int) (cid : String) (f : Form) (c : Claims) :
    (minted cfg now L cid f c).extra = c.extra := by
  unfold minted finish setNonce issDefault authTimeDefault expDefault acrDefault
  repeat' split
  all_goals rfl

theorem minted_atHash (cfg : Cfg) (now : Int) (L : Int) (cid : String) (f : Form) (c : Claims) :
    (minted cfg now L cid f c).atHash = c.atHash := by
  unfold minted finish setNonce issDefault authTimeDefault expDefault acrDefault
  repeat' split
  all_goals rfl

theorem minted_cHash (cfg : Cfg) (now : Int) (L : Int) (cid : String) (f : Form) (c : Claims) :
    (minted cfg now L cid f c).cHash = c.cHash := by
  unfold minted finish setNonce issDefault authTimeDefault expDefault acrDefault
  repeat' split
  all_goals rfl

theorem minted_rat (cfg : Cfg) (now : Int) (L : Int) (cid : String) (f : Form) (c : Claims) :
    (minted cfg now L cid f c).rat = c.rat := by
  unfold minted finish setNonce issDefault authTimeDefault expDefault acrDefault
  repeat' split
  all_goals rfl

theorem minted_jti (cfg : Cfg) (now : Int) (L : Int) (cid : String) (f : Form) (c : Claims) :
    (minted cfg now L cid f c).jti = c.jti := by
  unfold minted finish setNonce issDefault authTimeDefault expDefault acrDefault
  repeat' split
  all_goals rfl

theorem minted_iat (cfg : Cfg) (now : Int) (L : Int) (cid : String) (f : Form) (c : Claims) :
    (minted cfg now L cid f c).iat = now := by
  unfold minted finish
  rfl

theorem minted_iss (cfg : Cfg) (now : Int) (L : Int) (cid : String) (f : Form) (c : Claims) :
    (minted cfg now L cid f c).iss = if c.iss = "" then cfg.issuer else c.iss := by
  unfold minted finish setNonce issDefault authTimeDefault expDefault acrDefault
  repeat' split
  all_goals first | rfl | simp_all

theorem minted_aud (cfg : Cfg) (now : Int) (L : Int) (cid : String) (f : Form) (c : Claims) :
    (minted cfg now L cid f c).aud = unique (c.aud ++ [cid]) := by
  unfold minted finish setNonce issDefault authTimeDefault expDefault acrDefault
  repeat' split
  all_goals rfl

theorem minted_nonce (cfg : Cfg) (now : Int) (L : Int) (cid : String) (f : Form) (c : Claims) :
    (minted cfg now L cid f c).nonce = if f.nonce.length = 0 then c.nonce else f.nonce := by
  unfold minted finish setNonce issDefault authTimeDefault expDefault acrDefault
  repeat' split
  all_goals first | rfl | simp_all

theorem minted_exp (cfg : Cfg) (now : Int) (L : Int) (cid : String) (f : Form) (c : Claims) :
    (minted cfg now L cid f c).exp =
      if c.exp = zeroTime then now + (if L = 0 then defaultExpiryTime else L) else c.exp := by
  unfold minted finish setNonce issDefault authTimeDefault expDefault acrDefault
  repeat' split
  all_goals first | rfl | simp_all

theorem minted_authTime (cfg : Cfg) (now : Int) (L : Int) (cid : String) (f : Form) (c : Claims) :
    (minted cfg now L cid f c).authTime = if c.authTime = zeroTime then truncSecond now else c.authTime := by
  unfold minted finish setNonce issDefault authTimeDefault expDefault acrDefault
  repeat' split
  all_goals first | rfl | simp_all

/-- the expiry the success condition of `generate_ok` talks about -/
theorem expDefault_exp (now : Int) (L : Int) (f : Form) (c : Claims) :
    (expDefault now L (if f.grantType ≠ "refresh_token" then acrDefault f c else c)).exp =
      if c.exp = zeroTime then now + L else c.exp := by
  unfold expDefault acrDefault
  repeat' split
  all_goals first | rfl | simp_all

/-! ## arithmetic -/

theorem wrap64_le {x : Int} (h : 0 ≤ x) : wrap64 x ≤ x := by
  unfold wrap64; omega

theorem unix_mono {a b : Int} (h : a ≤ b) : unix a ≤ unix b := by
  unfold unix; omega

theorem unix_mul_le (t : Int) : unix t * 1000000000 ≤ t := by
  unfold unix; omega

/-! ## `unique` -/

theorem mem_uniqueAux (x : String) (l seen : List String) (h : x ∈ l) : x ∈ uniqueAux l seen ∨ x ∈ seen := by
  induction l generalizing seen with
  | nil => cases h
  | cons y ys ih =>
    unfold uniqueAux
    by_cases hy : y ∈ seen
    · rw [if_pos hy]
      rcases List.mem_cons.mp h with rfl | h'
      · exact Or.inr hy
      · exact ih seen h'
    · rw [if_neg hy]
      rcases List.mem_cons.mp h with rfl | h'
      · exact Or.inl (List.mem_cons_self)
      · rcases ih (y :: seen) h' with h1 | h1
        · exact Or.inl (List.mem_cons_of_mem _ h1)
        · rcases List.mem_cons.mp h1 with rfl | h2
          · exact Or.inl (List.mem_cons_self)
          · exact Or.inr h2

theorem mem_unique (x : String) (l : List String) (h : x ∈ l) : x ∈ unique l := by
  rcases mem_uniqueAux x l [] h with h1 | h1
  · exact h1
  · cases h1

theorem uniqueAux_subset (x : String) (l seen : List String) (h : x ∈ uniqueAux l seen) : x ∈ l := by
  induction l generalizing seen with
  | nil => cases h
  | cons y ys ih =>
    unfold uniqueAux at h
    by_cases hy : y ∈ seen
    · rw [if_pos hy] at h; exact List.mem_cons_of_mem _ (ih seen h)
    · rw [if_neg hy] at h
      rcases List.mem_cons.mp h with rfl | h'
      · exact List.mem_cons_self
      · exact List.mem_cons_of_mem _ (ih _ h')

/-! ## `validatePrompt`: what acceptance implies -/

theorem validatePromptCore_ok {pub sec : Bool} {now : Int} {req : List String} {m : Int} {hint : Hint}
    {c : Claims} (h : validatePromptCore pub sec now req m hint c = .ok ()) :
    c.sub ≠ "" ∧
    ¬ (m > 0 ∧ c.authTime + wrap64 (second * m) < c.rat) ∧
    ¬ (req.contains "none" = true ∧ ¬ c.authTime = c.rat ∧ c.authTime > c.rat) ∧
    ¬ (req.contains "login" = true ∧ c.authTime < c.rat) ∧
    (hint = .absent ∨ hint = .decoded c.sub) := by
  unfold validatePromptCore at h
  by_cases h1 : pub = true ∧ req.contains "none" = true ∧ ¬ sec = true
  · rw [if_pos h1] at h; cases h
  rw [if_neg h1] at h
  by_cases h2 : ¬ isWhitelisted req defaultPrompts = true
  · rw [if_pos h2] at h; cases h
  rw [if_neg h2] at h
  by_cases h3 : req.contains "none" = true ∧ req.length > 1
  · rw [if_pos h3] at h; cases h
  rw [if_neg h3] at h
  by_cases h4 : c.sub = ""
  · rw [if_pos h4] at h; cases h
  rw [if_neg h4] at h
  by_cases h5 : c.authTime > now + 5 * second
  · rw [if_pos h5] at h; cases h
  rw [if_neg h5] at h
  by_cases h6 : m > 0 ∧ c.authTime = zeroTime
  · rw [if_pos h6] at h; cases h
  rw [if_neg h6] at h
  by_cases h7 : m > 0 ∧ c.rat = zeroTime
  · rw [if_pos h7] at h; cases h
  rw [if_neg h7] at h
  by_cases h8 : m > 0 ∧ c.authTime + wrap64 (second * m) < c.rat
  · rw [if_pos h8] at h; cases h
  rw [if_neg h8] at h
  by_cases h9 : req.contains "none" = true ∧ c.authTime = zeroTime
  · rw [if_pos h9] at h; cases h
  rw [if_neg h9] at h
  by_cases h10 : req.contains "none" = true ∧ ¬ c.authTime = c.rat ∧ c.authTime > c.rat
  · rw [if_pos h10] at h; cases h
  rw [if_neg h10] at h
  by_cases h11 : req.contains "login" = true ∧ c.authTime < c.rat
  · rw [if_pos h11] at h; cases h
  rw [if_neg h11] at h
  refine ⟨h4, h8, h10, h11, ?_⟩
  cases hint with
  | absent => exact Or.inl rfl
  | error => cases h
  | decoded s =>
    simp only at h
    by_cases hs : s = ""
    · rw [if_pos hs] at h; cases h
    · rw [if_neg hs] at h
      by_cases hne : s ≠ c.sub
      · rw [if_pos hne] at h; cases h
      · right
        have : s = c.sub := by
          by_cases hx : s = c.sub
          · exact hx
          · exact absurd hx hne
        rw [this]

theorem validatePrompt_ok {pub sec : Bool} {now : Int} {f : Form} {c : Claims}
    (h : validatePrompt pub sec now f c = .ok ()) :
    c.sub ≠ "" ∧
    ¬ (maxAgeOf f > 0 ∧ c.authTime + wrap64 (second * maxAgeOf f) < c.rat) ∧
    ¬ ((promptList f.prompt).contains "none" = true ∧ ¬ c.authTime = c.rat ∧ c.authTime > c.rat) ∧
    ¬ ((promptList f.prompt).contains "login" = true ∧ c.authTime < c.rat) ∧
    (f.hint = .absent ∨ f.hint = .decoded c.sub) :=
  validatePromptCore_ok h

/-! ## inversion of the flow steps: an issued token comes out of `generateIDToken` -/

theorem explicitToken_issued {e : Env} {now : Int} {stored : Bool} {f : Form} {c c' : Claims} {a : String}
    {s : StepOut} (h : explicitToken e now stored f c a = .ok s) (hi : s.issued = some c') :
    stored = true ∧
    generateIDToken e.cfg now (e.lifespan e.lifeCode) e.clientId f { c with atHash := computeHash e.C e.alg a } = .ok c' ∧
    s.claims = c' := by
  unfold explicitToken at h
  by_cases hst : ¬ stored
  · rw [if_pos hst] at h; injection h with h; subst h; cases hi
  · rw [if_neg hst] at h
    by_cases hsub : c.sub = ""
    · rw [if_pos hsub] at h; cases h
    · rw [if_neg hsub] at h
      simp only at h
      split at h
      · cases h
      · next c2 hg =>
        injection h with h; subst h
        injection hi with hi; subst hi
        exact ⟨by simpa using hst, hg, rfl⟩

theorem deviceToken_issued {e : Env} {now : Int} {stored : Bool} {f : Form} {c c' : Claims} {a : String}
    {s : StepOut} (h : deviceToken e now stored f c a = .ok s) (hi : s.issued = some c') :
    stored = true ∧
    generateIDToken e.cfg now (e.lifespan none) e.clientId f { c with atHash := computeHash e.C e.alg a } = .ok c' ∧
    s.claims = c' := by
  unfold deviceToken at h
  by_cases hst : ¬ stored
  · rw [if_pos hst] at h; injection h with h; subst h; cases hi
  · rw [if_neg hst] at h
    by_cases hsub : c.sub = ""
    · rw [if_pos hsub] at h; cases h
    · rw [if_neg hsub] at h
      simp only at h
      split at h
      · cases h
      · next c2 hg =>
        injection h with h; subst h
        injection hi with hi; subst hi
        exact ⟨by simpa using hst, hg, rfl⟩

theorem implicitAuthorize_issued {e : Env} {now : Int} {openid withToken : Bool} {f : Form} {c c' : Claims}
    {a : String} {s : StepOut} (h : implicitAuthorize e now openid withToken f c a = .ok s)
    (hi : s.issued = some c') :
    openid = true ∧ validatePrompt e.clientPublic e.redirectSecure now f c = .ok () ∧
    generateIDToken e.cfg now (e.lifespan e.lifeImplicit) e.clientId f
      (if withToken then { c with atHash := computeHash e.C e.alg a } else c) = .ok c' ∧
    s.claims = c' := by
  unfold implicitAuthorize at h
  by_cases hop : ¬ openid
  · rw [if_pos hop] at h; cases h
  · rw [if_neg hop] at h
    by_cases h0 : f.nonce.length = 0
    · rw [if_pos h0] at h; cases h
    · rw [if_neg h0] at h
      by_cases h1 : (f.nonce.length : Int) < e.cfg.minEntropy
      · rw [if_pos h1] at h; cases h
      · rw [if_neg h1] at h
        split at h
        · cases h
        · next hv =>
          simp only at h
          split at h
          · cases h
          · next c2 hg =>
            injection h with h; subst h
            injection hi with hi; subst hi
            exact ⟨by simpa using hop, hv, hg, rfl⟩

theorem hybridAuthorize_issued {e : Env} {now : Int} {openid withID withToken : Bool} {f : Form}
    {c c' : Claims} {code a : String} {s : StepOut}
    (h : hybridAuthorize e now openid withID withToken f c code a = .ok s) (hi : s.issued = some c') :
    openid = true ∧ withID = true ∧ validatePrompt e.clientPublic e.redirectSecure now f c = .ok () ∧
    generateIDToken e.cfg now (e.lifespan e.lifeImplicit) e.clientId f
      (if withToken then { c with cHash := computeHash e.C e.alg code, atHash := computeHash e.C e.alg a }
       else { c with cHash := computeHash e.C e.alg code }) = .ok c' ∧
    s.claims = c' := by
  unfold hybridAuthorize at h
  by_cases h0 : f.nonce.length = 0 ∧ withID
  · rw [if_pos h0] at h; cases h
  · rw [if_neg h0] at h
    by_cases h1 : f.nonce.length > 0 ∧ (f.nonce.length : Int) < e.cfg.minEntropy
    · rw [if_pos h1] at h; cases h
    · rw [if_neg h1] at h
      split at h
      · cases h
      · next hv =>
        simp only at h
        by_cases hcond : ¬ openid ∨ ¬ withID
        · rw [if_pos hcond] at h; injection h with h; subst h; cases hi
        · rw [if_neg hcond] at h
          split at h
          · cases h
          · next c3 hg =>
            injection h with h; subst h
            injection hi with hi; subst hi
            have hcond' : openid = true ∧ withID = true := by
              cases openid <;> cases withID <;> simp_all
            refine ⟨hcond'.1, hcond'.2, hv, ?_, rfl⟩
            cases withToken <;> simpa using hg

theorem refreshToken_issued {e : Env} {now : Int} {openid : Bool} {f : Form} {c c' : Claims} {a u : String}
    {s : StepOut} (h : refreshToken e now openid f c a u = .ok s) (hi : s.issued = some c') :
    openid = true ∧
    generateIDToken e.cfg now (e.lifespan e.lifeRefresh) e.clientId f
      { c with exp := zeroTime, jti := u, atHash := computeHash e.C e.alg a, cHash := "", iat := truncSecond now } = .ok c' ∧
    s.claims = c' := by
  unfold refreshToken at h
  by_cases hop : ¬ openid
  · rw [if_pos hop] at h; injection h with h; subst h; cases hi
  · rw [if_neg hop] at h
    simp only at h
    by_cases hsub : c.sub = ""
    · rw [if_pos hsub] at h; cases h
    · rw [if_neg hsub] at h
      split at h
      · cases h
      · next c3 hg =>
        injection h with h; subst h
        injection hi with hi; subst hi
        exact ⟨by simpa using hop, hg, rfl⟩

/-! ## the subject survives every step -/

theorem generate_sub {cfg : Cfg} {now : Int} {L : Int} {cid : String} {f : Form} {c c' : Claims}
    (h : generateIDToken cfg now L cid f c = .ok c') : c'.sub = c.sub ∧ c.sub ≠ "" := by
  obtain ⟨hs, _, _, _, rfl⟩ := generate_ok h
  exact ⟨minted_sub _ _ _ _ _ _, hs⟩

theorem explicitAuthorize_ok {e : Env} {now : Int} {openid : Bool} {f : Form} {c : Claims} {s : StepOut}
    (h : explicitAuthorize e now openid f c = .ok s) :
    s.claims = c ∧ s.issued = none ∧ (s.stored = true → openid = true ∧ c.sub ≠ "") := by
  unfold explicitAuthorize at h
  by_cases hop : ¬ openid
  · rw [if_pos hop] at h; injection h with h; subst h
    exact ⟨rfl, rfl, fun hst => by cases hst⟩
  · rw [if_neg hop] at h
    split at h
    · cases h
    · next hv =>
      injection h with h; subst h
      exact ⟨rfl, rfl, fun _ => ⟨by simpa using hop, (validatePrompt_ok hv).1⟩⟩

theorem explicitToken_sub {e : Env} {now : Int} {stored : Bool} {f : Form} {c : Claims} {a : String}
    {s : StepOut} (h : explicitToken e now stored f c a = .ok s) : s.claims.sub = c.sub := by
  cases hi : s.issued with
  | some c' =>
    obtain ⟨_, hg, hc⟩ := explicitToken_issued h hi
    rw [hc]; exact (generate_sub hg).1
  | none =>
    unfold explicitToken at h
    by_cases hst : ¬ stored
    · rw [if_pos hst] at h; injection h with h; subst h; rfl
    · rw [if_neg hst] at h
      by_cases hsub : c.sub = ""
      · rw [if_pos hsub] at h; cases h
      · rw [if_neg hsub] at h
        simp only at h
        split at h
        · cases h
        · injection h with h; subst h; cases hi

theorem deviceToken_sub {e : Env} {now : Int} {stored : Bool} {f : Form} {c : Claims} {a : String}
    {s : StepOut} (h : deviceToken e now stored f c a = .ok s) : s.claims.sub = c.sub := by
  cases hi : s.issued with
  | some c' =>
    obtain ⟨_, hg, hc⟩ := deviceToken_issued h hi
    rw [hc]; exact (generate_sub hg).1
  | none =>
    unfold deviceToken at h
    by_cases hst : ¬ stored
    · rw [if_pos hst] at h; injection h with h; subst h; rfl
    · rw [if_neg hst] at h
      by_cases hsub : c.sub = ""
      · rw [if_pos hsub] at h; cases h
      · rw [if_neg hsub] at h
        simp only at h
        split at h
        · cases h
        · injection h with h; subst h; cases hi

theorem implicitAuthorize_ok {e : Env} {now : Int} {openid wt : Bool} {f : Form} {c : Claims} {a : String}
    {s : StepOut} (h : implicitAuthorize e now openid wt f c a = .ok s) :
    ∃ c', s.issued = some c' := by
  unfold implicitAuthorize at h
  by_cases hop : ¬ openid
  · rw [if_pos hop] at h; cases h
  · rw [if_neg hop] at h
    by_cases h0 : f.nonce.length = 0
    · rw [if_pos h0] at h; cases h
    · rw [if_neg h0] at h
      by_cases h1 : (f.nonce.length : Int) < e.cfg.minEntropy
      · rw [if_pos h1] at h; cases h
      · rw [if_neg h1] at h
        split at h
        · cases h
        · simp only at h
          split at h
          · cases h
          · next c2 _ => injection h with h; subst h; exact ⟨c2, rfl⟩

theorem hybridAuthorize_sub {e : Env} {now : Int} {openid wi wt : Bool} {f : Form} {c : Claims}
    {code a : String} {s : StepOut} (h : hybridAuthorize e now openid wi wt f c code a = .ok s) :
    s.claims.sub = c.sub ∧ c.sub ≠ "" ∧ (s.stored = true → openid = true) := by
  have hv : validatePrompt e.clientPublic e.redirectSecure now f c = .ok () ∧ (s.stored = true → openid = true) ∧
      (s.issued = none → s.claims.sub = c.sub) := by
    unfold hybridAuthorize at h
    by_cases h0 : f.nonce.length = 0 ∧ wi
    · rw [if_pos h0] at h; cases h
    · rw [if_neg h0] at h
      by_cases h1 : f.nonce.length > 0 ∧ (f.nonce.length : Int) < e.cfg.minEntropy
      · rw [if_pos h1] at h; cases h
      · rw [if_neg h1] at h
        split at h
        · cases h
        · next hv =>
          simp only at h
          by_cases hcond : ¬ openid ∨ ¬ wi
          · rw [if_pos hcond] at h; injection h with h; subst h
            refine ⟨hv, fun hst => hst, fun _ => ?_⟩
            cases wt <;> rfl
          · rw [if_neg hcond] at h
            split at h
            · cases h
            · injection h with h; subst h
              refine ⟨hv, fun hst => hst, fun hn => by cases hn⟩
  refine ⟨?_, (validatePrompt_ok hv.1).1, hv.2.1⟩
  cases hi : s.issued with
  | none => exact hv.2.2 hi
  | some c' =>
    obtain ⟨_, _, _, hg, hc⟩ := hybridAuthorize_issued h hi
    rw [hc, (generate_sub hg).1]
    cases wt <;> rfl

theorem hybridAuthorize_cHash {e : Env} {now : Int} {openid wi wt : Bool} {f : Form} {c : Claims}
    {code a : String} {s : StepOut} (h : hybridAuthorize e now openid wi wt f c code a = .ok s) :
    s.claims.cHash = computeHash e.C e.alg code := by
  cases hi : s.issued with
  | some c' =>
    obtain ⟨_, _, _, hg, hc⟩ := hybridAuthorize_issued h hi
    obtain ⟨_, _, _, _, hm⟩ := generate_ok hg
    rw [hc, hm, minted_cHash]
    cases wt <;> rfl
  | none =>
    unfold hybridAuthorize at h
    by_cases h0 : f.nonce.length = 0 ∧ wi
    · rw [if_pos h0] at h; cases h
    · rw [if_neg h0] at h
      by_cases h1 : f.nonce.length > 0 ∧ (f.nonce.length : Int) < e.cfg.minEntropy
      · rw [if_pos h1] at h; cases h
      · rw [if_neg h1] at h
        split at h
        · cases h
        · simp only at h
          by_cases hcond : ¬ openid ∨ ¬ wi
          · rw [if_pos hcond] at h; injection h with h; subst h
            cases wt <;> rfl
          · rw [if_neg hcond] at h
            split at h
            · cases h
            · injection h with h; subst h; cases hi

/-! ## inversion of a complete exchange -/

theorem report_idToken {s : StepOut} {now t : Int} {a k a' k' : String} {c' : Claims}
    (h : report s now a k = .idToken c' t a' k') : s.issued = some c' ∧ t = now ∧ a' = a ∧ k' = k := by
  unfold report at h
  split at h
  · next c hc => injection h with h1 h2 h3 h4; subst h1; exact ⟨hc, h2.symm, h3.symm, h4.symm⟩
  · cases h

theorem exchange_inv {e : Env} {x : Exchange} {c' : Claims} {t : Int} {a k : String}
    (h : exchange e x = .idToken c' t a k) :
    (x.last = .authz ∧ ∃ s1, firstStep e x = .ok s1 ∧ s1.issued = some c' ∧ t = x.now1 ∧
        a = (if x.rt.hasToken then x.at0 else "") ∧ k = (if x.rt.hasCode then x.code else "")) ∨
    (x.last = .token ∧ ∃ s1 s2, firstStep e x = .ok s1 ∧ secondStep e x s1 = .ok s2 ∧ s2.issued = some c' ∧
        t = x.now1 + x.dt1 ∧ a = x.at1 ∧ k = (if x.rt = .device then "" else x.code)) ∨
    (x.last = .refresh ∧ ∃ s1 s2 s3, firstStep e x = .ok s1 ∧ secondStep e x s1 = .ok s2 ∧
        thirdStep e x s2 = .ok s3 ∧ s3.issued = some c' ∧ t = x.now1 + x.dt1 + x.dt2 ∧ a = x.at2 ∧ k = "") := by
  unfold exchange at h
  cases h1 : firstStep e x with
  | error err => rw [h1] at h; cases h
  | ok s1 =>
    rw [h1] at h
    simp only at h
    cases hl : x.last with
    | authz =>
      rw [hl] at h
      simp only at h
      obtain ⟨hi, ht, ha, hk⟩ := report_idToken h
      exact Or.inl ⟨rfl, s1, rfl, hi, ht, ha, hk⟩
    | token =>
      rw [hl] at h
      simp only at h
      cases h2 : secondStep e x s1 with
      | error err => rw [h2] at h; cases h
      | ok s2 =>
        rw [h2] at h
        simp only at h
        obtain ⟨hi, ht, ha, hk⟩ := report_idToken h
        exact Or.inr (Or.inl ⟨rfl, s1, s2, rfl, h2, hi, ht, ha, hk⟩)
    | refresh =>
      rw [hl] at h
      simp only at h
      cases h2 : secondStep e x s1 with
      | error err => rw [h2] at h; cases h
      | ok s2 =>
        rw [h2] at h
        simp only at h
        cases h3 : thirdStep e x s2 with
        | error err => rw [h3] at h; cases h
        | ok s3 =>
          rw [h3] at h
          simp only at h
          obtain ⟨hi, ht, ha, hk⟩ := report_idToken h
          exact Or.inr (Or.inr ⟨rfl, s1, s2, s3, rfl, h2, h3, hi, ht, ha, hk⟩)

/-- after the first step: the subject is unchanged, and a stored session implies `openid` -/
theorem firstStep_ok {e : Env} {x : Exchange} {s1 : StepOut} (h : firstStep e x = .ok s1) :
    s1.claims.sub = x.claims.sub ∧ (s1.stored = true → x.openid = true) ∧
    (∀ c', s1.issued = some c' → x.openid = true ∧ x.claims.sub ≠ "" ∧ c'.sub = x.claims.sub) := by
  unfold firstStep at h
  cases hrt : x.rt with
  | code =>
    rw [hrt] at h
    simp only at h
    split at h
    · cases h
    · obtain ⟨hc, hi, hst⟩ := explicitAuthorize_ok h
      refine ⟨by rw [hc], fun hs => (hst hs).1, fun c' hc' => ?_⟩
      rw [hi] at hc'; cases hc'
  | it =>
    rw [hrt] at h
    simp only at h
    obtain ⟨c', hi⟩ := implicitAuthorize_ok h
    obtain ⟨hop, _, hg, hc⟩ := implicitAuthorize_issued h hi
    have hs := generate_sub hg
    refine ⟨by rw [hc, hs.1]; rfl, fun _ => hop, fun c'' hc'' => ?_⟩
    rw [hi] at hc''; injection hc'' with hc''; subst hc''
    exact ⟨hop, hs.2, hs.1⟩
  | itt =>
    rw [hrt] at h
    simp only at h
    obtain ⟨c', hi⟩ := implicitAuthorize_ok h
    obtain ⟨hop, _, hg, hc⟩ := implicitAuthorize_issued h hi
    have hs := generate_sub hg
    refine ⟨by rw [hc, hs.1]; rfl, fun _ => hop, fun c'' hc'' => ?_⟩
    rw [hi] at hc''; injection hc'' with hc''; subst hc''
    exact ⟨hop, hs.2, hs.1⟩
  | ci =>
    rw [hrt] at h
    simp only at h
    obtain ⟨hs, hne, hst⟩ := hybridAuthorize_sub h
    refine ⟨hs, hst, fun c' hc' => ?_⟩
    obtain ⟨hop, _, _, _, hc⟩ := hybridAuthorize_issued h hc'
    exact ⟨hop, hne, by rw [← hc]; exact hs⟩
  | cit =>
    rw [hrt] at h
    simp only at h
    obtain ⟨hs, hne, hst⟩ := hybridAuthorize_sub h
    refine ⟨hs, hst, fun c' hc' => ?_⟩
    obtain ⟨hop, _, _, _, hc⟩ := hybridAuthorize_issued h hc'
    exact ⟨hop, hne, by rw [← hc]; exact hs⟩
  | ct =>
    rw [hrt] at h
    simp only at h
    obtain ⟨hs, hne, hst⟩ := hybridAuthorize_sub h
    refine ⟨hs, hst, fun c' hc' => ?_⟩
    obtain ⟨hop, _, _, _, hc⟩ := hybridAuthorize_issued h hc'
    exact ⟨hop, hne, by rw [← hc]; exact hs⟩
  | device =>
    rw [hrt] at h
    simp only at h
    injection h with h; subst h
    exact ⟨rfl, fun hs => hs, fun c' hc' => by cases hc'⟩

theorem secondStep_ok {e : Env} {x : Exchange} {s1 s2 : StepOut} (h : secondStep e x s1 = .ok s2) :
    s2.claims.sub = s1.claims.sub ∧
    (∀ c', s2.issued = some c' → s1.stored = true ∧ s1.claims.sub ≠ "" ∧ c'.sub = s1.claims.sub ∧
      c'.atHash = computeHash e.C e.alg x.at1 ∧ c'.cHash = s1.claims.cHash) := by
  unfold secondStep at h
  by_cases hd : x.rt = .device
  · rw [hd] at h
    simp only at h
    refine ⟨deviceToken_sub h, fun c' hc' => ?_⟩
    obtain ⟨hst, hg, _⟩ := deviceToken_issued h hc'
    have hs := generate_sub hg
    obtain ⟨_, _, _, _, hm⟩ := generate_ok hg
    refine ⟨hst, hs.2, hs.1, ?_, ?_⟩
    · rw [hm, minted_atHash]
    · rw [hm, minted_cHash]
  · have h' : explicitToken e (x.now1 + x.dt1) s1.stored x.form s1.claims x.at1 = .ok s2 := by
      cases hrt : x.rt <;> rw [hrt] at h hd <;> first | exact h | exact absurd rfl hd
    refine ⟨explicitToken_sub h', fun c' hc' => ?_⟩
    obtain ⟨hst, hg, _⟩ := explicitToken_issued h' hc'
    have hs := generate_sub hg
    obtain ⟨_, _, _, _, hm⟩ := generate_ok hg
    refine ⟨hst, hs.2, hs.1, ?_, ?_⟩
    · rw [hm, minted_atHash]
    · rw [hm, minted_cHash]

end Fosite.Proofs.IDToken

/- Two-sided weakest preconditions for handler programs: success and error exits. -/
import Fosite.Proofs.StepLemmas
namespace Fosite.Model

def wpH {α} (rc : RunCfg) (x : HP α) (Kok : RState → α → Prop) (Kerr : RState → Err → Prop) (rs : RState) : Prop :=
  wp rc x.toProg (fun rs' r => match r with | .ok a => Kok rs' a | .error e => Kerr rs' e) rs

theorem wpH_ok {α} (rc) (a : α) (Kok Kerr) (rs) : wpH rc (HP.ok a) Kok Kerr rs ↔ Kok rs a := Iff.rfl
theorem wpH_pure {α} (rc) (a : α) (Kok Kerr) (rs) : wpH rc (pure a : HP α) Kok Kerr rs ↔ Kok rs a := Iff.rfl
theorem wpH_fail {α} (rc) (e : Err) (Kok : RState → α → Prop) (Kerr) (rs) : wpH rc (HP.fail e) Kok Kerr rs ↔ Kerr rs e := Iff.rfl

theorem wpH_bind {α β} (rc) (x : HP α) (f : α → HP β) (Kok Kerr) (rs) :
    wpH rc (x >>= f) Kok Kerr rs ↔ wpH rc x (fun rs' a => wpH rc (f a) Kok Kerr rs') Kerr rs := by
  show wpH rc (HP.bind x f) Kok Kerr rs ↔ _
  unfold wpH HP.bind HP.mk
  show wp rc (Prog.bind x.toProg _) _ rs ↔ _
  rw [wp_bind]
  constructor <;>
  · apply wp_mono
    intro rs' r h
    cases r with
    | ok a => exact h
    | error e => exact h

theorem wpH_guard (rc) (c : Bool) (e : Err) (Kok Kerr) (rs) :
    wpH rc (HP.guard c e) Kok Kerr rs ↔ (c = true → Kok rs ()) ∧ (c = false → Kerr rs e) := by
  unfold HP.guard
  cases c
  · simp only [Bool.false_eq_true, if_false, false_implies, true_and, true_implies]; exact Iff.rfl
  · simp only [if_true, true_implies, Bool.true_eq_false, false_implies, and_true]; exact Iff.rfl

theorem wpH_callH (rc) (c : Call) (Kok Kerr) (rs : RState) :
    wpH rc (callH c) Kok Kerr rs ↔ Kok (rs.step rc c).1 (rs.step rc c).2 := Iff.rfl

theorem wpH_failWith {α} (rc) (p : Prog Err) (Kok : RState → α → Prop) (Kerr) (rs) :
    wpH rc (HP.failWith p) Kok Kerr rs ↔ wp rc p Kerr rs := by
  unfold wpH HP.failWith HP.mk HP.toProg
  rw [wp_bind]
  exact Iff.rfl

theorem wpH_expectReq (rc) (c : Call) (other) (Kok Kerr) (rs : RState) :
    wpH rc (expectReq c other) Kok Kerr rs ↔
      (∀ x, (rs.step rc c).2 = .req x → Kok (rs.step rc c).1 x) ∧
      ((∀ x, (rs.step rc c).2 ≠ .req x) → wp rc (other (rs.step rc c).2) Kerr (rs.step rc c).1) := by
  unfold expectReq wpH HP.mk
  show wp rc (Prog.call c _) _ rs ↔ _
  simp only [wp_call]
  generalize (rs.step rc c).2 = r
  cases r <;> simp only [reduceCtorEq, false_implies, implies_true, true_and, Res.req.injEq, forall_eq', ne_eq, not_false_eq_true,
    forall_const, not_true_eq_false, and_true]
  all_goals first
    | exact Iff.rfl
    | exact wpH_failWith rc _ Kok Kerr _
    | (simp only [not_forall, not_not]; exact ⟨fun h => ⟨h, fun ⟨x, hx⟩ => absurd rfl hx⟩, fun h => h.1⟩)

theorem wpH_expectClient (rc) (c : Call) (e) (Kok Kerr) (rs : RState) :
    wpH rc (expectClient c e) Kok Kerr rs ↔
      (∀ x, (rs.step rc c).2 = .client x → Kok (rs.step rc c).1 x) ∧
      ((∀ x, (rs.step rc c).2 ≠ .client x) → Kerr (rs.step rc c).1 e) := by
  unfold expectClient wpH HP.mk
  show wp rc (Prog.call c _) _ rs ↔ _
  simp only [wp_call]
  generalize (rs.step rc c).2 = r
  cases r <;> simp only [reduceCtorEq, false_implies, implies_true, true_and, Res.client.injEq, forall_eq', ne_eq, not_false_eq_true,
    forall_const, not_true_eq_false, and_true]
  all_goals first
    | exact Iff.rfl
    | (simp only [not_forall, not_not]; exact ⟨fun h => ⟨h, fun ⟨x, hx⟩ => absurd rfl hx⟩, fun h => h.1⟩)

theorem wpH_ite {α} (rc) (c : Prop) [Decidable c] (x y : HP α) (Kok Kerr) (rs) :
    wpH rc (if c then x else y) Kok Kerr rs ↔ (c → wpH rc x Kok Kerr rs) ∧ (¬c → wpH rc y Kok Kerr rs) := by
  split <;> simp_all

theorem wp_iff_wpH {α} (rc) (x : HP α) (Q : RState → Except Err α → Prop) (rs) :
    wp rc x.toProg Q rs ↔ wpH rc x (fun rs' a => Q rs' (.ok a)) (fun rs' e => Q rs' (.error e)) rs := by
  unfold wpH
  constructor <;>
  · apply wp_mono
    intro rs' r h
    cases r <;> exact h

/-- closing a handler -/
theorem wpH_run (rc) (x : HP Out) (Q : RState → Out → Prop) (rs) :
    wp rc x.run Q rs ↔ wpH rc x Q (fun rs' e => Q rs' (.err e)) rs := by
  unfold HP.run wpH
  rw [wp_bind]
  constructor <;>
  · apply wp_mono
    intro rs' r h
    cases r <;> exact h

end Fosite.Model

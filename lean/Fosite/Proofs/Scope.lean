import Fosite.Model.Scope
import Fosite.Spec.Scope
namespace Fosite.Proofs
open Fosite.Model Fosite.Spec

theorem splitDot_ne_nil (s : List Char) : splitDot s ≠ [] := by
  induction s with
  | nil => simp [splitDot]
  | cons c cs ih =>
    unfold splitDot
    split
    · simp
    · split
      · simp
      · simp

theorem wildcardSegs_longer (ms ns : List Seg) (h : ms.length > ns.length) :
    wildcardSegs ms ns = false := by
  induction ms generalizing ns with
  | nil => simp at h
  | cons m ms ih =>
    cases ns with
    | nil => cases ms <;> simp [wildcardSegs]
    | cons n ns =>
      cases ms with
      | nil => simp at h
      | cons m' ms =>
        simp only [wildcardSegs]
        have := ih ns (by simpa using h)
        simp [this]

theorem wcLoop_eq (cs ns : List Seg) (hne : cs ≠ []) (hle : cs.length ≤ ns.length) :
    wcLoop (cs.length != ns.length) cs ns = wildcardSegs cs ns := by
  induction cs generalizing ns with
  | nil => exact absurd rfl hne
  | cons c cs ih =>
    cases ns with
    | nil => simp at hle
    | cons n ns =>
      cases cs with
      | nil =>
        cases ns with
        | nil =>
          simp only [wcLoop, wildcardSegs, segMatch]
          by_cases h1 : c = star <;> by_cases h2 : n = [] <;> by_cases h3 : c = n <;>
            simp_all [star, wcLoop]
        | cons n' ns' =>
          simp only [wcLoop, wildcardSegs]
          by_cases h1 : c = star <;> by_cases h2 : n = [] <;> simp_all [star, wcLoop]
      | cons c' cs' =>
        have hle' : (c' :: cs').length ≤ ns.length := by simpa using hle
        have ih' := ih ns (by simp) hle'
        have hd : ((c :: c' :: cs').length != (n :: ns).length) = ((c' :: cs').length != ns.length) := by
          simp
        rw [hd]
        simp only [wcLoop, wildcardSegs, segMatch]
        rw [ih']
        by_cases h1 : c = star <;> by_cases h2 : n = [] <;> by_cases h3 : c = n <;>
          simp_all [star]

theorem wildcardOne_eq (m n : List Char) :
    wildcardOne m n = wildcardSegs (splitDot m) (splitDot n) := by
  unfold wildcardOne
  simp only
  split
  · rename_i h; exact (wildcardSegs_longer _ _ h).symm
  · rename_i h; exact wcLoop_eq _ _ (splitDot_ne_nil m) (by omega)

end Fosite.Proofs

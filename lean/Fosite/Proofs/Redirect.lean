/-
  Lemmas relating the redirect-URI model (`Model/Redirect.lean`) to its documented meaning
  (`Spec/Redirect.lean`).  Property theorems are in `Props/C11.lean`.
-/
import Fosite.Model.Redirect
import Fosite.Spec.Redirect
namespace Fosite.Proofs.Redirect
open Fosite.Model Fosite.Spec

theorem isValid_iff (u : PURL) :
    isValidRedirectURI u = true ↔ u.isRequestURL = true ∧ u.fragment = "" := by
  unfold isValidRedirectURI
  cases h1 : u.isRequestURL <;> by_cases h2 : u.fragment = "" <;> simp [h2]

theorem asLoopback_iff (req reg : PURL) :
    isMatchingAsLoopback req reg = true ↔ loopbackVariant req reg := by
  unfold isMatchingAsLoopback loopbackVariant isLoopbackAddress
  cases h : reg.parseOk
  · simp
  · simp only [Bool.not_true, Bool.false_eq_true, ↓reduceIte, Bool.and_eq_true, beq_iff_eq,
      ite_eq_left_iff, true_and]
    constructor
    · intro hh
      by_cases hc : ((req.scheme = "http" ∧ req.hostIsLoopbackIP = true) ∧ reg.hostname = req.hostname) ∧
          reg.path = req.path
      · by_cases hq : reg.rawQuery = req.rawQuery
        · exact ⟨hc.1.1.1, hc.1.1.2, hc.1.2, hc.2, hq⟩
        · exact absurd (hh (fun hx => hq hx.2)) (by simp)
      · exact absurd (hh (fun hx => hc hx.1)) (by simp)
    · intro ⟨a, b, c, d, e⟩ hn
      exact absurd ⟨⟨⟨⟨a, b⟩, c⟩, d⟩, e⟩ hn

/-- The loop of `isMatchingRedirectURI` finds something exactly when the requested string is
    registered or is a loopback variant of a registered URI, and what it finds is always the
    requested string itself. -/
theorem matchLoop_eq (P : Parser) (uri : String) (req : PURL) (regs : List String) :
    matchLoop P uri req regs =
      if uri ∈ regs ∨ ∃ r ∈ regs, loopbackVariant req (P r) then some uri else none := by
  induction regs with
  | nil => simp [matchLoop]
  | cons b bs ih =>
    unfold matchLoop
    by_cases hb : b = uri
    · subst hb; simp
    · have hb' : ¬ uri = b := fun h => hb h.symm
      simp only [beq_iff_eq, hb, ↓reduceIte, List.mem_cons, hb', false_or, exists_eq_or_imp]
      by_cases hl : loopbackVariant req (P b)
      · simp [(asLoopback_iff req (P b)).2 hl, hl]
      · have : isMatchingAsLoopback req (P b) = false := by
          cases h : isMatchingAsLoopback req (P b)
          · rfl
          · exact absurd ((asLoopback_iff _ _).1 h) hl
        simp only [this, Bool.false_eq_true, ↓reduceIte, hl, false_or]
        exact ih

theorem isMatching_eq (P : Parser) (uri : String) (regs : List String) :
    isMatchingRedirectURI P uri regs =
      if (P uri).parseOk = true ∧ qualifies P uri regs then some uri else none := by
  unfold isMatchingRedirectURI qualifies
  simp only [matchLoop_eq]
  cases h : (P uri).parseOk <;> simp

theorem valid_false_of_not (u : PURL) (h : ¬ (u.isRequestURL = true ∧ u.fragment = "")) :
    isValidRedirectURI u = false := by
  cases hv : isValidRedirectURI u
  · rfl
  · exact absurd ((isValid_iff u).1 hv) h

/-- The model decides exactly the documented relation. -/
theorem match_eq (P : Parser) (raw : String) (regs : List String) :
    matchRedirectURI P raw regs =
      match matchTarget P raw regs with
      | some s => .ok s
      | none => .error errInvalidRequest := by
  unfold matchRedirectURI matchTarget
  by_cases hraw : raw = ""
  · subst hraw
    match regs with
    | [] =>
      have hc : ((("" : String) == "") && (([] : List String).length == 1)) = false := by decide
      simp only [hc, Bool.false_eq_true, ↓reduceIte]
      cases isMatchingRedirectURI P "" [] <;> rfl
    | [r] =>
      simp only [beq_self_eq_true, List.length_cons, List.length_nil, Nat.zero_add, Bool.and_self,
        ↓reduceIte]
      by_cases hv : wellFormedTarget (P r)
      · have := (isValid_iff (P r)).2 hv.2
        simp [hv, this, hv.1]
      · rw [if_neg hv]
        have : ((P r).parseOk && isValidRedirectURI (P r)) = false := by
          cases h1 : (P r).parseOk
          · rfl
          · cases h2 : isValidRedirectURI (P r)
            · rfl
            · exact absurd ⟨h1, (isValid_iff _).1 h2⟩ hv
        simp [this]
    | a :: b :: rest =>
      have hc : ((("" : String) == "") && ((a :: b :: rest).length == 1)) = false := by simp
      simp only [hc, Bool.false_eq_true, ↓reduceIte]
      cases isMatchingRedirectURI P "" (a :: b :: rest) <;> rfl
  · have hne : (raw == "") = false := by simp [hraw]
    simp only [hne, Bool.false_and, Bool.false_eq_true, ↓reduceIte, hraw, isMatching_eq]
    by_cases hq : (P raw).parseOk = true ∧ qualifies P raw regs
    · simp only [hq, and_self, ↓reduceIte, bne_iff_ne, ne_eq, hraw, not_false_eq_true,
        Bool.true_and, true_and]
      by_cases hv : wellFormedTarget (P raw)
      · simp [hv, (isValid_iff (P raw)).2 hv.2]
      · have : isValidRedirectURI (P raw) = false :=
          valid_false_of_not _ (fun h => hv ⟨hq.1, h⟩)
        simp [this, hv]
    · rw [if_neg hq]
      have : ¬ (qualifies P raw regs ∧ wellFormedTarget (P raw)) := by
        intro ⟨h1, h2⟩
        exact hq ⟨h2.1, h1⟩
      simp [this]

theorem matchTarget_sound (P : Parser) (raw : String) (regs : List String) (s : String)
    (h : matchTarget P raw regs = some s) :
    matchSound P raw regs s ∧ wellFormedTarget (P s) := by
  unfold matchTarget at h
  by_cases hraw : raw = ""
  · subst hraw
    match regs, h with
    | [r], h =>
      simp only [↓reduceIte] at h
      by_cases hv : wellFormedTarget (P r)
      · simp only [hv, ↓reduceIte, Option.some.injEq] at h
        subst h
        exact ⟨Or.inr (Or.inl ⟨rfl, rfl⟩), hv⟩
      · simp [hv] at h
    | [], h => simp at h
    | _ :: _ :: _, h => simp at h
  · simp only [hraw, ↓reduceIte] at h
    by_cases hq : qualifies P raw regs ∧ wellFormedTarget (P raw)
    · simp only [hq, and_self, ↓reduceIte, Option.some.injEq] at h
      subst h
      refine ⟨?_, hq.2⟩
      cases hq.1 with
      | inl hm => exact Or.inl ⟨hraw, rfl, hm⟩
      | inr hl => exact Or.inr (Or.inr ⟨hraw, rfl, hl⟩)
    · simp [hq] at h

theorem suffix_iff_drop (l suf : List Char) :
    suf <:+ l ↔ l.drop (l.length - suf.length) = suf := by
  constructor
  · intro ⟨p, hp⟩
    subst hp
    simp
  · intro h
    rw [← h]
    exact List.drop_suffix _ _

theorem hasSuffix_iff (hn : String) :
    hasSuffixDotLocalhost hn = true ↔ ∃ p : List Char, hn.toList = p ++ ".localhost".toList := by
  unfold hasSuffixDotLocalhost
  rw [List.isSuffixOf_iff_suffix]
  constructor
  · intro ⟨p, hp⟩; exact ⟨p, hp.symm⟩
  · intro ⟨p, hp⟩; exact ⟨p, hp.symm⟩

theorem isLocalhost_iff (u : PURL) : isLocalhost u = true ↔ isLocal u := by
  unfold isLocalhost isLocal isLoopbackAddress
  simp only [Bool.or_eq_true, beq_iff_eq, hasSuffix_iff]
  constructor
  · intro h
    rcases h with (h | h) | h
    · exact Or.inr (Or.inl h)
    · exact Or.inr (Or.inr h)
    · exact Or.inl h
  · intro h
    rcases h with h | h | h
    · exact Or.inr h
    · exact Or.inl (Or.inl h)
    · exact Or.inl (Or.inr h)

theorem isLocalB_eq (u : PURL) : isLocalB u = isLocalhost u := by
  unfold isLocalB isLocalhost isLoopbackAddress hasSuffixDotLocalhost
  have hs : (u.hostname.toList.drop (u.hostname.toList.length - 10) == ".localhost".toList)
      = (".localhost".toList).isSuffixOf u.hostname.toList := by
    rw [Bool.eq_iff_iff, List.isSuffixOf_iff_suffix, suffix_iff_drop, beq_iff_eq]
    exact Iff.rfl
  simp only [hs]
  cases (".localhost".toList).isSuffixOf u.hostname.toList <;> cases u.hostIsLoopbackIP <;>
    by_cases h : u.hostname = "localhost" <;> simp [h]

end Fosite.Proofs.Redirect

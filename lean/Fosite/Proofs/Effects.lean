/-
  Effect of every storage call on the tables the grant invariants talk about
  (codes, refresh, rtIdx, next), as a case analysis that proofs can `rcases`.
-/
import Fosite.Proofs.Inv
namespace Fosite.Model

theorem alookup_adel {β} (l : List (Nat × β)) (k k2 : Nat) :
    alookup (adel l k) k2 = if k2 = k then none else alookup l k2 := by
  induction l with
  | nil => simp [adel, alookup]
  | cons p t ih =>
    obtain ⟨k', v'⟩ := p
    simp only [adel, List.filter_cons] at ih ⊢
    by_cases hk : k' = k
    · subst hk
      simp only [bne_self_eq_false, Bool.false_eq_true, if_false]
      rw [ih]
      by_cases h2 : k2 = k'
      · simp [h2]
      · simp [h2, alookup, Ne.symm h2]
    · have : (k' != k) = true := by simpa using hk
      simp only [this, if_true, alookup]
      by_cases h2 : k' = k2
      · subst h2; simp [hk]
      · simp only [h2, if_false]; exact ih

/-- how a call changes `refresh`, `rtIdx` and `next` -/
inductive RefreshEffect (ss ss' : SState) : Prop
  | same (hr : ss'.store.refresh = ss.store.refresh) (hi : ss'.store.rtIdx = ss.store.rtIdx) (hn : ss.next ≤ ss'.next)
  | create (a : Nat) (r : Req)
      (hr : ss'.store.refresh = aset ss.store.refresh ss.next { active := true, atSig := a, req := r })
      (hi : ss'.store.rtIdx = aset ss.store.rtIdx r.id ss.next) (hn : ss'.next = ss.next + 1)
  | deactivate (sig : Nat) (rec : RefreshRec) (hl : alookup ss.store.refresh sig = some rec)
      (hr : ss'.store.refresh = aset ss.store.refresh sig { rec with active := false })
      (hi : ss'.store.rtIdx = ss.store.rtIdx) (hn : ss'.next = ss.next)
  | delete (sig : Nat) (hr : ss'.store.refresh = adel ss.store.refresh sig)
      (hi : ss'.store.rtIdx = ss.store.rtIdx) (hn : ss'.next = ss.next)

theorem revokeRefreshS_effect (s : Store) (rid : Nat) :
    ((revokeRefreshS s rid).1.refresh = s.refresh ∨
      ∃ sig rec, alookup s.rtIdx rid = some sig ∧ alookup s.refresh sig = some rec ∧
        (revokeRefreshS s rid).1.refresh = aset s.refresh sig { rec with active := false }) ∧
    (revokeRefreshS s rid).1.rtIdx = s.rtIdx ∧ (revokeRefreshS s rid).1.codes = s.codes ∧
    (revokeRefreshS s rid).1.access = s.access ∧ (revokeRefreshS s rid).1.atIdx = s.atIdx := by
  unfold revokeRefreshS
  cases h1 : alookup s.rtIdx rid with
  | none => simp
  | some sig =>
    cases h2 : alookup s.refresh sig with
    | none => simp [h2]
    | some rec =>
      refine ⟨Or.inr ⟨sig, rec, rfl, h2, ?_⟩, ?_, ?_, ?_, ?_⟩ <;> simp [h2]

theorem revokeAccessS_effect (s : Store) (rid : Nat) :
    (revokeAccessS s rid).1.refresh = s.refresh ∧ (revokeAccessS s rid).1.rtIdx = s.rtIdx ∧
    (revokeAccessS s rid).1.codes = s.codes ∧ (revokeAccessS s rid).1.atIdx = s.atIdx := by
  unfold revokeAccessS
  simp

theorem exec_refresh_effect (ss : SState) (c : Call) :
    RefreshEffect ss (ss.exec c).1 ∧
    (∀ a r, c = .createRefresh a r → (ss.exec c).1.store.refresh = aset ss.store.refresh ss.next { active := true, atSig := a, req := r }) := by
  cases c with
  | createRefresh a r =>
    refine ⟨.create a r (by simp [SState.exec]) (by simp [SState.exec]) (by simp [SState.exec]), ?_⟩
    intro a' r' h; cases h; simp [SState.exec]
  | deleteRefresh k =>
    refine ⟨?_, by intro a r h; cases h⟩
    cases k with
    | none => exact .same (by simp [SState.exec]) (by simp [SState.exec]) (by simp [SState.exec])
    | some sig => exact .delete sig (by simp [SState.exec]) (by simp [SState.exec]) (by simp [SState.exec])
  | revokeRefresh rid =>
    refine ⟨?_, by intro a r h; cases h⟩
    have he := revokeRefreshS_effect ss.store rid
    simp only [SState.exec]
    rcases he.1 with h | ⟨sig, rec, _, hl, h⟩
    · exact .same h he.2.1 (Nat.le_refl _)
    · exact .deactivate sig rec hl h he.2.1 rfl
  | rotateRefresh rid k =>
    refine ⟨?_, by intro a r h; cases h⟩
    have he := revokeRefreshS_effect ss.store rid
    have ha := revokeAccessS_effect (revokeRefreshS ss.store rid).1 rid
    simp only [SState.exec]
    cases hres : (revokeRefreshS ss.store rid).2 with
    | ok =>
      simp only
      rcases he.1 with h | ⟨sig, rec, _, hl, h⟩
      · exact .same (by rw [ha.1]; exact h) (by rw [ha.2.1]; exact he.2.1) (Nat.le_refl _)
      · exact .deactivate sig rec hl (by rw [ha.1]; exact h) (by rw [ha.2.1]; exact he.2.1) rfl
    | _ =>
      simp only
      rcases he.1 with h | ⟨sig, rec, _, hl, h⟩
      · exact .same h he.2.1 (Nat.le_refl _)
      · exact .deactivate sig rec hl h he.2.1 rfl
  | _ =>
    refine ⟨?_, by intro a r h; cases h⟩
    simp only [SState.exec, revokeAccessS]
    (repeat' split) <;> exact .same rfl rfl (by simp)

end Fosite.Model

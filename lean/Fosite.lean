-- Root of the library: everything that `lake build` must re-check.
import Fosite.Model.Scope
import Fosite.Model.Step
import Fosite.Spec.Scope
import Fosite.Spec.Monitor
import Fosite.Proofs.Scope
import Fosite.Proofs.WP
import Fosite.Proofs.StepLemmas
import Fosite.Proofs.Redeem
import Fosite.Proofs.Inv
import Fosite.Proofs.History
import Fosite.Props.C01
import Fosite.Props.C12
import Fosite.Driver.Pure
import Fosite.Driver.Hist
import Fosite.Audit

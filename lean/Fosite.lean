-- Root of the library: everything that `lake build` must re-check.
import Fosite.Model.Scope
import Fosite.Spec.Scope
import Fosite.Proofs.Scope
import Fosite.Props.C12
import Fosite.Driver.Pure
import Fosite.Audit
